"""Engine B: process-level exploration - run the real inovesa binary, read the results back through tools/h5json."""
import hashlib
import json
import os
import shutil
import subprocess
import sys
import concurrent.futures as cf

VERIF = os.path.dirname(os.path.dirname(os.path.abspath(__file__)))
sys.path.insert(0, os.path.join(VERIF, "tools"))
import build  # noqa: E402
import vlib  # noqa: E402

BASE = ["--config", "/dev/null", "--cldev", "0"]


def workdir(name, fresh=True):
    d = os.path.join(vlib.WORK, name)
    if fresh:
        shutil.rmtree(d, ignore_errors=True)
    os.makedirs(d, exist_ok=True)
    return d


def run(binary, args, cwd, out="out.h5", env_extra=None, timeout=300, stdin=None, preexec_fn=None):
    """run inovesa with BASE + args (+ -o out if out is given); returns dict(rc, log, h5path)"""
    cmd = [binary] + BASE + (["-o", out] if out else []) + [str(a) for a in args]
    e = vlib.env()
    if env_extra:
        e.update(env_extra)
    try:
        r = subprocess.run(cmd, cwd=cwd, env=e, capture_output=True, text=True, timeout=timeout, errors="replace", preexec_fn=preexec_fn)
        rc, log = r.returncode, (r.stdout or "") + (r.stderr or "")
    except subprocess.TimeoutExpired as ex:
        rc, log = -999, "TIMEOUT " + str(ex)
    return dict(rc=rc, log=log, h5=os.path.join(cwd, out) if out else None, cmd=" ".join(cmd))


_h5json = None


def h5(path, maxv=200000):
    global _h5json
    if _h5json is None:
        _h5json = build.build_h5json()
    r = subprocess.run([_h5json, path, "--max", str(maxv)], capture_output=True, text=True)
    if r.returncode != 0 or not r.stdout.strip():
        return dict(error=(r.stdout + r.stderr)[-300:])
    try:
        return json.loads(r.stdout)
    except Exception as ex:  # noqa
        return dict(error="unparsable h5json output: %s" % ex)


def ds(doc, name):
    return doc["datasets"][name]


def rows(doc, name):
    """list of per-record value lists of a dataset"""
    d = doc["datasets"][name]
    dims = d["dims"]
    if not dims or dims[0] == 0:
        return []
    per = 1
    for x in dims[1:]:
        per *= x
    v = d["data"]
    return [v[i * per:(i + 1) * per] for i in range(dims[0])]


def pmap(fn, items, jobs=None, stable_wisdom=True):
    """run fn over items on all cores.  If an FFTW wisdom file was written while the jobs were in flight (cold cache, transform length not
    covered by the warm-up), runs of that length may have used different plans: the whole pass is repeated until no file changes, so that
    results which are compared bitwise were computed from the same wisdom.  fn must be a pure function of its item."""
    items = list(items)
    for attempt in range(4):
        w0 = vlib.wisdom_state()
        with cf.ThreadPoolExecutor(jobs or vlib.NJOBS) as ex:
            out = list(ex.map(fn, items))
        if not stable_wisdom:
            return out
        w1 = vlib.wisdom_state()
        if w1 == w0:
            return out
        changed = sorted(set(x[0] for x in set(w1) ^ set(w0)))
        vlib.WISDOM_REPEATS.append((getattr(fn, "__qualname__", "job"), attempt, changed[:12]))
        vlib.log("[wisdom] %d wisdom file(s) written during a parallel phase (%s) - repeating it" % (len(changed), ", ".join(changed[:6])))
    raise SystemExit("FFTW wisdom files still change after 4 passes of a parallel phase - another process is writing to %s" % vlib.XDG)


def warm(binary, argsets, name="warm"):
    """one sequential run per distinct transform-length configuration so that all later runs find the FFTW wisdom"""
    wd = workdir(name)
    for i, a in enumerate(argsets):
        run(binary, a, wd, out="w%d.h5" % i)
    shutil.rmtree(wd, ignore_errors=True)


def chash(*parts):
    return int(hashlib.sha1(" ".join(str(p) for p in parts).encode()).hexdigest()[:15], 16)


def write_start_h5_rank3(path, n, values):
    """start file in the older layout [records][n][n]: three records, record r = values * (1 + r/4)"""
    import array
    raw = path + ".raw"
    with open(raw, "wb") as f:
        array.array("f", values).tofile(f)
    subprocess.run([build.build_h5json(), "--write3", path, str(n), raw], check=True)
    os.remove(raw)


def write_start_h5_f64(path, n, values):
    """start file whose /PhaseSpace/data [1][1][n][n] is stored as 64-bit floats"""
    import array
    raw = path + ".raw"
    with open(raw, "wb") as f:
        array.array("f", values).tofile(f)
    subprocess.run([build.build_h5json(), "--write64", path, str(n), raw], check=True)
    os.remove(raw)


def write_start_h5(path, n, values):
    """minimal Inovesa start file with /PhaseSpace/data = values (n*n floats, row = position index)"""
    import array
    raw = path + ".raw"
    with open(raw, "wb") as f:
        array.array("f", values).tofile(f)
    exe = build.build_h5json()
    subprocess.run([exe, "--write", path, str(n), raw], check=True)
    os.remove(raw)
