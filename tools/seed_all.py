#!/usr/bin/env python3
"""Run every stored seeded change (seeded/<id>/patch.diff) against the check(s) of the property it breaks and write seeded/<id>/meta.json.
   seed_all.py [--tier quick] [id ...]
Each patch is applied to /repo (git apply, falling back to patch -F3 for context drift), the check is run, and the patch is
undone straight afterwards (git checkout -- .).  /repo must be clean."""
import json
import os
import re
import subprocess
import sys

V = os.path.dirname(os.path.dirname(os.path.abspath(__file__)))
# id: (property, what it needs in order to manifest, other properties whose checks also see it)
SEEDS = {
    "C01-fp-central-weight": ("C01", "3-point derivative stencil together with FPType damping-only or diffusion-only; every column then sums to 1 -/+ e1", []),
    "C02-odd-grid-centre": ("C02", "an odd grid size: every requested displacement is applied as d+0.5 cells; even grids are bit-identical", []),
    "C03-wrong-axis-zerobin": ("C03", "linear RF model and PhaseSpaceShiftX != PhaseSpaceShiftY: the kick vanishes at the energy axis' zero bin", []),
    "C04-halfplane-diffusion-guard": ("C04", "4-point stencil with FPType damping-only (start narrower than 0.7) or diffusion-only: the upper half plane gets the wrong diffusion term", ["C01"]),
    "C05-angle-from-stepsperTs": ("C05", "the time step given with --StepsPerRevolution while StepsPerTs differs from k*f_rev/fs: RF kick and drift rotate by 2pi/StepsPerTs", ["C03"]),
    "C06-odd-c2r-length": ("C06", "an odd padded transform length: the inverse transform is planned with N-1 points", []),
    "C07-csrpower-accumulates": ("C07", "more than one bunch: getCSRPower()[b] is the running total over bunches 0..b (spectrum stays right)", ["C10"]),
    "C08-offgrid-row-to-bunch0": ("C08", "a per-bunch y-kick that pushes a bunch other than the first off the grid at some position: the empty row lands in bunch 0's table", []),
    "C09-normalize-bunch0": ("C09", "more than one bunch whose pre-normalisation populations differ: every bunch is scaled with bunch 0's factor", []),
    "C11-stale-projection-after-load": ("C11", "start from a results file, an impedance present and RenormalizeCharge<0: the first wake kick is computed from the default Gaussian's profile", []),
    "C12-renorm-output-wake": ("C12", "impedance present, RenormalizeCharge>0 and an output step that is also a renormalisation step: the kick depends on whether that step is written", []),
    "C13-sticky-precision-after-bunchcurrent": ("C13", "BunchCurrent given together with a double option that sorts after it and needs more than 9 digits", []),
    "C14-second-sigint-default": ("C14", "a second interrupt signal in the same run (the handler restores the default action): the process dies and the file is unreadable", []),
    "C15-applyto-weights-swapped": ("C15", "a y-direction kick whose displacement differs between two neighbouring columns and a particle not on a half-cell position", []),
    "C16-factory-frev": ("C16", "impedance built by the factory, free-space CSR (gap<0) and a bending radius that is not c/(2 pi f_rev)", []),
    "C18-inplace-c2r-odd": ("C18", "an odd transform length and at least two wakePotential() calls on the same object", []),
    "C19-stale-kick-after-flush": ("C19", "modulation or noise on and an output flush directly before a step: that step runs with the previous step's kick while the record is right", []),
    "C20-bunchcurrent-composing": ("C20", "BunchCurrent on the command line AND in the config file: the file's values are appended instead of overridden", ["C13"]),
    "C09b-average-by-set-share": ("C09", "a bunch whose actual population differs from its share (data not freshly renormalised) AND an off-centre distribution: the mean is divided by the set share instead of the measured charge", []),
    "C02b-drop-minus-half-grid-shift": ("C02", "interpolation order 3 or 4 and a displacement in [-n/2, -n/2+1): the whole-cell shift by -n/2 returns zeros", []),
    "C14b-sigint-ignored-during-append": ("C14", "a single signal arriving between the appends of an output block or of the final block (SIGINT set to SIG_IGN there): it is dropped", []),
    "C06b-exact-fit-last-cell": ("C06", "the last bucket ends exactly at the end of the padded buffer and its last profile cell is non-zero: that cell is not copied", ["C18"]),
    "C03b-bunchlength-from-option-alpha0": ("C03", "synchrotron frequency given with -f (far from what the alpha0 option implies, or many steps) together with the sinusoidal RF model: the kick slope follows the alpha0 option, drift and time step follow -f", ["C10"]),
    "C12b-projection-refresh-skipped": ("C12", "no wake impedance at all, RenormalizeCharge>0 and two cadences that do not both cover every renormalisation step: the renormalisation factor is taken from a stale projection", ["C10"]),
    "C07b-formfactor-renorm-wrong-axis": ("C07", "position and energy axes with different cell sizes (different extents): the form-factor normalisation takes one cell size from the energy axis; unreachable from main(), which always builds equal extents", []),
    "C01b-wholecell-shortcut-gains-charge": ("C01", "a per-row offset k+eps with 0 < eps < 1e-3 and interpolation order 2 or 4: the shifted cell's weight is pinned to 1 while the neighbour weights are kept", ["C02"]),
    "C08b-nonlinear-rf-lastbunch": ("C08", "two or more bunches and the sinusoidal RF map (--LinearRF false): bunches beyond the first get no RF kick", []),
    "C10b-csr-intensity-accumulates": ("C10", "two or more bunches and a radiation impedance that is non-zero on the grid: /CSR/Intensity of bunch b is the running total over bunches 0..b", ["C07"]),
    "C04b-diffusion-number-capped": ("C04", "e1/cell^2 between 1/4 and 1/2 (short damping time, few steps, fine grid): the diffusion weight is capped at 1/4, equilibrium width sqrt(0.25/r)", ["C01"]),
    "C13b-alias-not-erased-when-current-explicit": ("C13", "a legacy name (steps, RFVoltage) in the parent config AND the matching current name given explicitly: the run uses the legacy value, the saved .cfg carries the explicit one", ["C20"]),
    "C20b-config-errors-exit-zero": ("C20", "an unknown option or a malformed value in the CONFIG FILE (not on the command line): the message is printed, nothing is simulated, but parse() returns false and the exit status is 0", []),
    "C18b-pad-without-clear": ("C18", "updateCSR() earlier on the same object, then padBunchProfiles()/wakePotential(), with bucket 0 empty: the last bunch's profile stays at position 0 of the padded buffer", []),
    "C15b-stochastic-damps-to-x-zerobin": ("C15", "FPTrack 3 and a grid whose two axes are shifted differently: the tracked ensemble is damped towards the position axis' zero bin", []),
    "C05b-wake-table-frozen": ("C05", "many steps per synchrotron period (from about 256; the wake changes by less than 1e-5 cells per step): the kick table is never rebuilt while the recorded wake keeps following the bunch", ["C08"]),
    "C16b-wall-odd-count-short": ("C16", "ResistiveWall constructed directly with an odd sample count: n-1 samples are returned (invisible through the factory)", []),
    "C11b-negative-start-record-means-last": ("C11", "an explicit --InitialDistStep of -2 or lower: every negative index loads the last record", []),
    "C19b-float-accumulated-modulation-phase": ("C19", "modulation active and many steps (thousands): the sine's argument is accumulated in single precision, the modulation frequency is off by 0.1-0.2 %", []),
    "C17b-odd-padded-length-overread": ("C17", "RoundPadding=false and ceil(GridSize*padding) odd (e.g. -s 8 --padding 2.1) with an HDF5 output: updateCSR reads one complex sample past the end of the impedance", []),
    "C01c-fp-switch-row-from-x-axis": ("C01", "4-point derivative stencil, a damping term, and position and energy axes with different zero bins (only one axis shifted): the one-sided stencil switches sides at the position axis' zero bin", ["C04"]),
    "C02c-ykick-skips-source-cell0": ("C02", "a y-direction kick with whole displacement k <= 0 and non-zero data in the lowest cell of the kick axis: source cell 0 is treated as outside the grid", ["C01"]),
    "C03c-odd-grid-half-cell-kick": ("C03", "an odd grid size: every kick-type map shifts by an extra half cell (the orbit still closes, the centre of rotation moves)", ["C02"]),
    "C04c-moments-by-set-share": ("C04", "the charge on the grid differing from the set share (wide start losing its tails, no periodic renormalisation): length and spread are scaled by sqrt(Q_actual/Q_set)", ["C09"]),
    "C05c-diffusion-capped-damping-not": ("C05", "e1/cell^2 between 1/4 and 1/2: only the diffusion coefficient is capped, the energy spread settles below 1 and the profile violates the Haissinski relation", ["C04"]),
    "C06c-lone-bunch-readback-at-zero": ("C06", "exactly one filled bucket whose bucket number is not 0 (trailing empty buckets): the wake is read back at cell 0 instead of bucket*spacing", ["C08"]),
    "C07c-stale-cutoff-filter": ("C07", "the same field object: updateCSR(fc>0) and later updateCSR(0): the cached high-pass filter is not reset, the spectrum stays filtered", ["C18"]),
    "C08c-fptype-none-shortcut-one-bunch": ("C08", "FPType 0 with a Fokker-Planck map present and two or more bunches: the identity shortcut copies bunch 0's rows only, later bunches' slices are never written", ["C04"]),
    "C09c-normalize-skipped-when-total-is-one": ("C09", "more than one bucket, a measured total within one float epsilon of 1 and populations that differ from the set shares (e.g. data in a bucket the pattern declares empty): normalize() returns early", []),
    "C11c-loaded-grid-energy-axis-from-q": ("C11", "start from a results file with PhaseSpaceShiftY != PhaseSpaceShiftX: the loaded grid's energy axis is built from the position extents", []),
    "C13c-quoted-strings-in-cfg": ("C13", "a string option (output, tracking, Impedance, InitialDistFile) containing a blank or tab: written in double quotes, which the config reader keeps as part of the value", []),
    "C14c-setup-sigint-erased-by-h5-create": ("C14", "a signal arriving during set-up (before the results file is created) in a run that writes an HDF5 file: the flag is overwritten, the run continues to the end", []),
    "C10c-stored-impedance-is-radiation-impedance": ("C10", "a dynamics impedance with anything besides single-bucket CSR (wall, collimator, file) or more than one bucket: /Impedance stores the radiation impedance, not the one the stored wake was computed with", []),
    "C12c-fp-skipped-when-fptrack-none": ("C12", "--FPTrack 0 (with or without a tracking file) while the Fokker-Planck term is on: the grid's damping/diffusion step is skipped - a tracking option changes the physics", ["C04"]),
    "C19c-table-not-rebuilt-for-amplitude": ("C19", "amplitude noise without phase noise (or a step whose phase equals the previous one bit for bit): the kick table is only rebuilt when the PHASE changes, the applied amplitude is stale while the record shows the new one", []),
    "C15c-dynrf-particle-kicked-with-next-step": ("C15", "the dynamic RF kick map (noise or modulation on) and particle tracking: after apply() the map already holds the NEXT step's kick, so the particle is moved by step i+1's field while the grid got step i's", ["C19"]),
    "C16c-plates-mode-sum-capped": ("C16", "parallel plates with (f/f0)*(gap/R)^1.5 beyond a few thousand (gaps of metres, or very high harmonics): the mode sum is cut at 1000 terms, the impedance falls below free space instead of tending to it", []),
    "C17c-padded-datasets-sized-by-radiation-field": ("C17", "two or more buckets spaced closely relative to the padding (n_buckets x spacing < padding/2 grid widths, e.g. -H 28000), an impedance and an HDF5 output: the padded datasets are sized from the radiation field, HDF5 reads past the wake field's buffers", ["C10"]),
    "C18c-formfactor-upper-half-mirrored": ("C18", "wakePotential() and later updateCSR() on the SAME field object with an impedance that is non-zero above half the length (a user table given with its negative-frequency half): the upper half of the shared form-factor buffer holds the mirrored spectrum of the earlier profile", ["C07"]),
    "C20c-unsigned-trailing-garbage-accepted": ("C20", "a value that starts with digits and continues with garbage (64abc, 32.5, 1e3, 0x40) given to an unsigned option: read up to the first non-digit, no message, the run proceeds", []),
    "C01d-identity-copies-first-bunch-only": ("C01", "more than one bunch and an Identity step whose target grid does not already hold the same data: only bunch 0's cells are copied", ["C08"]),
    "C02d-swapoffset-truncates-to-one-bunch": ("C02", "two or more bunches and a y-direction kick set through swapOffset(): the offset vector is cut to one bunch, the tables of later bunches are never built", ["C01", "C08"]),
    "C03d-xkick-reads-unfilled-bunch-tables": ("C03", "more than one bunch: the x-kick (drift) reads a per-bunch table that only exists for bunch 0, later bunches get the RF kick but no drift", ["C08"]),
    "C04d-fp-bunch-offset-from-xsize": ("C04", "two or more filled bunches: the Fokker-Planck step addresses bunch n at n*_xsize*_ysize (_xsize is 1 for this map), later bunches are never written", ["C08"]),
    "C05d-odd-grid-half-cell-all-kicks": ("C05", "an odd grid size: every kick map moves the distribution by an extra half cell per step that is in none of the recorded tables", ["C03"]),
    "C06d-wakeloss-buffer-shared-nyquist": ("C06", "profiles with content at the highest frequency bin of the padded grid (cell-to-cell structure): the top bin of the shared buffer passes through with an implicit impedance of 1", []),
    "C07d-pad-without-clear-ghost-in-wake": ("C07", "a bunch in a bucket other than 0 and updateCSR() before wakePotential() on the same object: the padded buffer keeps a ghost copy at offset 0 (same slip as C18b, judged by C07's Parseval relation)", ["C18"]),
    "C09d-swap-drops-energy-projection": ("C09", "a copy made by assignment or swap onto an object that held another energy distribution: only the position projections travel", []),
    "C10d-energy-axis-written-from-position-ruler": ("C10", "PhaseSpaceShiftX != PhaseSpaceShiftY: /Info/AxisValues_E is written from the position ruler", []),
    "C08d-equal-currents-share-bunch0-wake": ("C08", "an impedance, two or more bunches with exactly equal set currents, and bunches whose wake potentials differ (different data or a long-range wake): every bunch is kicked with bunch 0's wake, the recorded wake stays right", ["C05"]),
    "C16d-sum-grows-to-longer-operand": ("C16", "an impedance file with more lines than the requested sample count (or a += b with b longer than a): the sum grows to the longer operand, size() exceeds nFreqs() and the extra samples are non-zero", ["C17"]),
    "C18d-stale-padded-uptodate-flag": ("C18", "padBunchProfiles() for profile A, then the profile changes, then wakePotential() on the same object without another call in between: the padded copy of A is transformed", []),
    "C20d-stepsperrevolution-getter-truncates": ("C20", "a non-integer StepsPerRevolution (e.g. 0.5, 2.5): the getter returns an unsigned integer, 0.5 becomes 'not set' and the run falls back to StepsPerTs", ["C13", "C03"]),
    "C13d-savephasespace-64bit-not-saved": ("C13", "SavePhaseSpace given with a non-zero value: the member became a 64 bit type, save() has no branch for it and writes no line, the rerun uses 0", ["C20"]),
    "C19d-modulation-step-from-raw-N": ("C19", "RF phase modulation together with --StepsPerRevolution: the modulation advances as if there were -N steps per synchrotron period, the recorded and applied frequency is f*steps/N", []),
    "C17d-file-only-impedance-keeps-file-length": ("C17", "an impedance file as the only contribution (-G 0) with fewer rows than last bucket offset + grid size: the table is returned with its own length, padBunchProfiles writes past the padded buffer", ["C16"]),
    "C12d-verbose-integrates-before-initial-normalisation": ("C12", "--verbose in one run and not in the other, a start from a file and RenormalizeCharge >= 0: the verbose block integrates the loaded grid before the initial normalisation, the quiet run normalises with the placeholder's integral", ["C11"]),
    "C14d-final-report-from-step-counter": ("C14", "a signal arriving during or after the last step: the closing report tests the step counter instead of the flag and says Finished", []),
    "C11d-multibunch-start-file-accepted": ("C11", "a start file written by a run with more than one bunch: no longer refused, the run silently starts from bunch 0 of the record", ["C17"]),
    "C15d-odd-grid-half-cell-grid-side": ("C15", "an odd grid size: the grid is moved by offset + 0.5 cells per kick, the particle by offset (third variant of the same one-line slip as C03c / C05d)", ["C03"]),
    "C01e-fp-skips-columns-without-positive-cells": ("C01", "the damping/diffusion step on signed data with a grid column that holds negative but no positive cells: the column is taken for empty and zeroed", []),
    "C02e-coefficient-memo-ignores-order": ("C02", "two interpolation orders used in one process and the same fractional offset requested across the hand-over: the memoised weights of the other order are returned", ["C01"]),
    "C03e-quadratic-recentre-sign": ("C03", "--InterpolationPoints 3: the three-point stencil is re-centred for fractions above one half with the wrong sign of the new fraction (weights still sum to one, the first moment goes wrong)", ["C02", "C15"]),
    "C04e-damping-time-zero-means-calculated": ("C04", "DampingTime exactly 0 (meant: no damping, no diffusion) with a start that is not the natural size: a full Fokker-Planck map with the calculated damping time is built", []),
    "C06e-pad-without-clear-after-csr": ("C06", "updateCSR() before wakePotential() on the same object and the lowest filled bucket not 0: ghost bunch at position 0 (same slip as C18b / C07d, judged by C06's convolution)", ["C18"]),
    "C07e-readback-mask-instead-of-modulo": ("C07", "a padded length that is not a power of two and not a multiple of the grid size (RoundPadding false with padding 1.5 or 2.5): the wake read-back index is masked with nmax-1 instead of taken modulo", ["C06"]),
    "C08e-order1-ykick-uses-bunch0-table": ("C08", "--InterpolationPoints 1, more than one bunch and a per-bunch y-kick (wake): the whole-cell fast path reads bunch 0's table for every bunch", ["C02"]),
    "C09e-shorthand-normalise-nan-for-empty-bucket": ("C09", "a filling pattern with a share of exactly zero whose bucket really holds no charge, renormalised through integrateAndNormalize(): the profile is scaled by 0/0", []),
    "C10e-initial-xprojection-not-refreshed": ("C10", "a start from a file with RenormalizeCharge < 0: record 0 stores the default Gaussian's profile, not the projection of the stored phase space", ["C11"]),
    "C05e-clamped-option-makes-wake-kick-linear": ("C05", "--InterpolateClamped true together with any wake: the wake kick map falls back to two-point interpolation, whose numerical diffusion heats the bunch where the wake is strong (energy spread 1.06-1.26)", []),
    "C12e-dynrf-table-rebuilt-only-if-record-differs": ("C12", "RF phase modulation, an HDF5 output and two runs with different outstep: the kick table is rebuilt only if the queue front differs from the last record, and the record list is emptied by every output block", ["C19"]),
    "C13e-input-files-resolved-next-to-config": ("C13", "an input file (impedance, start, tracking) given by a relative name that exists next to the parent config but not in the working directory, output elsewhere: the run uses the resolved path, the saved .cfg the raw name", []),
    "C15e-applytoall-skips-order1": ("C15", "--InterpolationPoints 1 with tracking through applyToAll(): kick maps return before moving any particle (InterpolationType::none is 1, Identity uses 0)", []),
    "C16e-freespace-axis-truncated-to-whole-harmonic": ("C16", "free-space CSR with a short frequency axis (f_max/f_rev small and not an integer): the axis top is truncated to a whole harmonic, every sample is low by (floor(r)/r)^(1/3)", []),
    "C17e-nonlinear-dynrf-queue-one-period": ("C17", "a dynamic RF map (noise or modulation) with --LinearRF false and a run longer than one synchrotron period: the modulation queue holds StepsPerTs entries, front() on the empty queue", ["C19"]),
    "C18e-loss-spectrum-tail-not-rewritten": ("C18", "an impedance that is exactly zero from some index below half the padded length on (a short user table alone) and a second wakePotential() on the same object: the tail of the loss spectrum keeps what the previous inverse transform left", ["C06"]),
    "C19e-negative-amplitude-clamped-not-recorded": ("C19", "amplitude noise so large that 1 + noise < 0 for some step: the applied amplitude is clamped to 0, the record shows the negative factor", []),
    "C20e-devnull-normalised-before-config-load": ("C20", "the special value /dev/null for --output or --InitialDistFile together with a config file that is actually loaded: notify() writes the literal string back after the normalisation ran", ["C13"]),
    "C11e-final-phase-space-follows-save-cadence": ("C11", "a first leg run with --SavePhaseSpace k >= 2 whose number of output steps is not a multiple of k: the final block no longer always writes the phase space, the continuation silently starts from an older record", ["C10", "C14"]),
    "C14e-inherited-sigint-ignore-honoured": ("C14", "the process inherits SIGINT as ignored (started as a background job of a non-interactive shell, or by a parent that ignores it): the handler is not installed, kill -INT does nothing", []),
    "C01f-flush-below-epsilon-drops-small-cells": ("C01", "data whose cell values are below about 1.2e-7 in magnitude (an un-normalised or weakly filled bunch, far tails): KickMap::apply() zeroes every destination value below float epsilon", ["C02", "C08"]),
    "C02f-flush-denormals-zeroes-negatives": ("C02", "a field with negative (or subnormal) values in the cells that are read: a 'flush denormals' guard in KickMap::apply() lacks the absolute value and zeroes every negative result", ["C01"]),
    "C03f-static-slope-first-map-wins": ("C03", "two or more linear RF kick maps with different step counts built in one process: tan(angle) is kept in a function-local static, the first map fixes the slope for all later ones (the executable builds one map per run and never shows it)", ["C19", "C01"]),
    "C04f-fp-map-gated-by-fptrack": ("C04", "--FPTrack 0 (a tracking option): the Fokker-Planck map of the grid is not built at all, nothing relaxes although FPType is 3 and the damping time positive", ["C12"]),
    "C06f-impedance-copy-never-refreshed": ("C06", "the impedance object is modified after the first wakePotential() call on a field object: the call keeps a private copy of the lower half of the impedance made on first use", ["C18"]),
    "C07f-formfactor-completed-above-nyquist": ("C07", "an impedance with non-zero samples above half the length (user table with all harmonics): updateCSR() mirrors the form factor into the upper half, those bins are added to the power while the wake never reads them", ["C18"]),
    "C08f-static-bunch-stride-first-grid-wins": ("C08", "two or more bunches and kick maps of two different grid sizes applied in one process: the per-bunch data stride is a function-local static initialised by the first map applied (library-level programs only)", ["C01", "C02"]),
    "C09f-moments-zero-below-epsilon-population": ("C09", "a bunch whose measured population is below float epsilon (un-normalised low-amplitude data, or a share of 5e-8): mean and variance are reported as exactly 0", []),
    "C10f-final-time-clamped-to-rotations": ("C10", "a --rotations value that is not a whole number of steps (-N 32 -T 0.33): the final record's time stamp is clamped to the rotations option although ceil(N*T) steps were executed", []),
    "C11f-loaded-grid-integrated-then-normalised": ("C11", "a start from a results file with RenormalizeCharge 0 and a first leg whose charge drifted from 1 (tight phase space, -P 6): the loader now integrates the grid, so the initial renormalisation (a no-op before) rescales the loaded record", []),
    "C12f-csr-intensity-accumulates-without-cutoff": ("C12", "--CutoffFreq 0 (no cut-off) and two runs with different output cadence: the CSR intensity is only reset in the filtered branch, without cut-off it sums over every record written so far", ["C07", "C10", "C18"]),
    "C13f-save-skipped-onto-own-config": ("C13", "a run started with --config <output>.cfg of an earlier run, the same output name and an overriding option on the command line: save() refuses to overwrite the file the run was started from, the .cfg next to the new results keeps the old values", []),
    "C14f-outstep-zero-division-on-abort": ("C14", "--outstep 0 (only the final result is kept) and an interrupt at any point: an extra attribute written on abort divides by outstep, SIGFPE before the file is closed", []),
    "C05f-static-rf-kick-at-phase-zero": ("C05", "--LinearRF false with a static RF map (no noise, no modulation): the constructors call _calcKick() with the default phase 0 instead of the synchronous phase, the zero crossing of the RF voltage moves to +2.5 sigma", ["C03", "C19"]),
    "C15f-clamp-order-lets-nan-through": ("C15", "--FPTrack 2 and a tracked particle whose stencil-weighted charge is exactly zero (top or bottom row, empty cells): 0/0, and the re-ordered clamp min(max(y,1),n-1) lets the NaN through", ["C17"]),
    "C16f-plates-cache-ignores-fmax": ("C16", "two or more ParallelPlatesCSR built in one process with the same sample count, f0 and gap but another f_max: a function-local cache keyed without f_max returns the first table", []),
    "C18f-cutoff-table-not-reset": ("C18", "updateCSR(fc>0) and later updateCSR(fc<=0) on the same field object: the tabulated high pass is only rebuilt for a positive cut-off (same circumstance as C07c, other mechanism)", ["C07"]),
    "C19f-record-relative-to-syncphase": ("C19", "sinusoidal RF with V0 > 0 and noise or modulation on: the queue (and so the record) holds the phase relative to the synchronous phase, the applied kick adds it back - record = applied phase minus asin(V0/V_RF)", []),
    "C17f-tracks-interpolated-past-axis-end": ("C17", "--tracking with an HDF5 output and a tracked particle exactly on the upper grid edge at a written step (file line beyond the grid, or a particle clamped there by a kick): appendTracks interpolates between axis values and reads Ruler::at(n)", ["C15"]),
    "C20f-unused-legacy-entry-not-erased": ("C20", "a config file using the legacy name RFVoltage or steps AND the current name on the command line with another value: the unused legacy entry stays in the map, notify() writes it after the current one", ["C13"]),
    "C01g-fp-diffusion-diagonal-capped": ("C01", "a coarse time step on a fine energy grid (2*e1/cell^2 > 1, e.g. -s 256 -N 8) with a diffusion term: the diagonal diffusion weight is capped at 1 while the neighbour weights are not, every column sums to 1 + 2r - min(2r,1)", ["C04"]),
    "C02g-zero-offset-row-skipped-on-update": ("C02", "the same KickMap object is given offsets twice and a row that had a non-zero displacement earlier gets exactly 0: updateSM skips rows with offset 0 ('identity entry in place already'), the row keeps its old stencil", ["C08", "C05"]),
    "C03g-drift-slip-with-gamma-term": ("C03", "low beam energy and small momentum compaction through the executable (-E 1e8 --alpha0 3e-4): main() hands (alpha0 - 1/gamma^2)/alpha0 * angle to the drift while frequency, time step and kick use alpha0 alone", ["C05"]),
    "C04g-three-point-damping-factor-two": ("C04", "--derivation 3 with a damping term: a constant refactor loses the 1/2 of the central difference, damping twice too strong, equilibrium 0.69 instead of 1", ["C01", "C05"]),
    "C05g-three-point-diffusion-constant-mixup": ("C05", "--derivation 3: the diffusion stencil adds e1/(2 delta) instead of e1/delta^2 (identifier mix-up), energy spread settles at 0.39", ["C04", "C01"]),
    "C06g-bucket-list-kept-by-reference": ("C06", "the caller modifies or destroys its bucket-number vector after constructing the field: the field keeps a reference instead of a copy", ["C18", "C07"]),
    "C07g-wake-divided-by-integral": ("C07", "a phase space whose integral (as last computed by integrate()) differs from 1 (RenormalizeCharge -1, charge lost, un-normalised data): the wake is divided by the integral, the spectrum is not", ["C06", "C10", "C05"]),
    "C09g-variance-about-position-mean": ("C09", "a bunch whose mean position differs from its mean energy (displaced on one axis only): variance() takes the second moment of either axis about the POSITION mean (hoisted out of the loop from the wrong array)", ["C10", "C04"]),
    "C11g-loaded-grid-energy-scale-relative": ("C11", "a start from a results file together with --alpha1/--alpha2 or --LinearRF false: the loaded grid's energy axis carries the relative spread as its ElectronVolt scale (factor E0 off), the higher-order drift and the sinusoidal kick of the continued leg are wrong", []),
    "C13g-alpha0-commented-when-fs-given": ("C13", "a non-default alpha0 together with a SynchrotronFrequency that was given anywhere, in particular the explicit 0 every saved .cfg contains (second generation): alpha0 is written as a comment", []),
    "C08g-swapoffset-lastbunch-shrinks-for-good": ("C08", "more than one bunch, a per-bunch y kick through swapOffset, and the call order full field / field with fewer blocks than bunches / full field: the last bunch owning a table is clamped with min() and never grows back (library-level programs only)", ["C02"]),
    "C14g-final-renormalisation-by-planned-step": ("C14", "--RenormalizeCharge n > 0 and an interrupt that stops the loop at a step k with (k%n==0) != (laststep%n==0): the final block decides about renormalising from the planned end step, the last record is off by the accumulated charge drift", []),
    "C10g-final-wake-before-renormalisation": ("C10", "an impedance, RenormalizeCharge n > 0 dividing the number of executed steps, and noticeable charge drift (tight phase space, wide start): in the final block the wake is updated before the renormalisation, the last record's wake belongs to the un-normalised profile", ["C12", "C14"]),
    "C12g-output-probe-truncates-start-file": ("C12", "the output name is the file the run starts from (-i run.h5 -o run.h5, continuing in place): an early 'can we write there' probe truncates it before it is read - the result depends on what the output file is called", ["C11"]),
    "C15g-stochastic-damping-rewritten-rounds-twice": ("C15", "a very small damping decrement (below about 1e-6: many steps per period, long damping time) and millions of steps with the stochastic tracker: an algebraically identical rewrite y*(1-d)+y0*d rounds twice in single precision, the ensemble damps at the wrong rate towards the wrong row", []),
    "C16g-collimator-alone-flag-dropped": ("C16", "the collimator as the ONLY selected contribution (UseCSR=false, no wall, no file, gap != 0): the factory adds it but no longer marks the result as changed and returns nothing", ["C10", "C05"]),
    "C17g-isfinite-guard-int-overflow": ("C17", "a kick of 2^31 cells or more (e.g. -N 4 on the default 256 grid: tan(pi/2) times the distance from the centre): the range guard became isfinite(), the float -> int32 conversion is undefined and apply() overflows a signed subtraction (UBSan only)", ["C01"]),
    "C18g-empty-profile-skip-leaves-spectrum": ("C18", "updateCSR() on a field object for a bunch that carried charge in an earlier call and whose current profile is zero in every bin: an 'empty bucket' shortcut skips the transform and leaves the spectrum row of the last populated profile", ["C07"]),
    "C19g-hoisted-phase-term-not-scaled": ("C19", "linear RF with amplitude noise AND a non-zero phase offset in the same step: a loop-hoisting tidy-up scales the slope by the amplitude factor but no longer the phase term, the applied phase is phi/A while the record says phi", []),
    "C20g-nonregular-config-path-ignored": ("C20", "--config naming an existing path that is not a regular file (a directory, a FIFO): neither loaded nor refused, the run goes ahead with defaults", []),
    "C02h-fraction-from-offset-origin-from-sum": ("C02", "an offset a few ulp below a whole number of cells (0.99999994, -1e-7, 4.9999995): the interpolation fraction is taken from the offset itself, the stencil origin from the rounded sum n/2+offset - the field moves k+1 cells", ["C01", "C15"]),
    "C03h-sin-kick-rewrite-drops-cos-phis": ("C03", "the sinusoidal RF model with a synchronous phase that is not small (V0 a sizeable fraction of V_RF): a trigonometric rewrite of the kick drops cos(phi_s) from the slope", ["C05", "C19"]),
    "C06h-scaling-uses-position-cell": ("C06", "a phase space whose position and energy axes have different cell sizes (API only): the wake scaling uses the position axis' cell where the energy cell belongs", ["C07"]),
    "C09h-variance-by-raw-index-moments": ("C09", "a grid of 512 cells or more, a bunch 2-6 cells wide in the upper part of the grid: the variance is E[i^2]-E[i]^2 over the cell index in single precision (cancellation), widths off by 0.1-3 %", []),
    "C01h-apply-index-widened-without-sign": ("C01", "a row displaced by about -n/2 cells or below with charge near the low end of the kick axis: apply() widens the unsigned 32-bit node index to 64 bit without sign extension, nodes encoded as negative numbers are dropped", ["C02", "C08"]),
    "C07h-last-impedance-sample-left-out": ("C07", "an impedance table that ends below the Nyquist sample with a non-negligible last entry (short user table, tabulated resonator): the wake loop uses the index of the last non-zero sample as a count and leaves that sample out, the spectrum still counts it", ["C06", "C18"]),
    "C10h-mean-by-nominal-population": ("C10", "a record at which the population has drifted from nominal AND the centroid is away from zero (wide start + RF modulation / strong wake): the first moments are divided by the nominal share", ["C09", "C04"]),
    "C08h-clamp-limits-read-from-bunch0": ("C08", "--InterpolateClamped true with cubic interpolation and two or more bunches with different data: a new CPU implementation of the clamp reads the two limiting cells of the x-kick (drift) without the bunch offset, every bunch is clamped against bunch 0's cells", ["C01", "C03"]),
    "C04h-axis-accessor-index-8bit": ("C04", "a grid of more than 256 cells with the Fokker-Planck term on: PhaseSpace::q()/p() take their index as uint_fast8_t (the type of the axis-number arguments next to them), rows j >= 256 get the energy of row j-256 in the damping term", ["C01", "C09"]),
    "C05h-linear-rf-angle-times-cos-phis": ("C05", "a ring with a large synchronous phase (radiation loss a sizeable fraction of the RF voltage, e.g. -E 2.2e9 -V 0.8e6) and the linear RF model: main() builds the RF kick with angle*cos(phi_s), drift and time step keep angle", ["C03"]),
    "C13h-signed-options-saved-as-unsigned": ("C13", "a negative signed 32-bit option in a run that writes results (RenormalizeCharge -1, 'no renormalisation'): the folded int/uint branch of save() streams it as unsigned, the rerun from the .cfg is refused", ["C20"]),
    "C16h-collimator-range-check-full-gap": ("C16", "a collimator opening between the pipe radius and the full gap (|gap|/2 <= r < |gap|): the factory's range check lost its /2, a NEGATIVE constant resistance Z0/pi ln(outer/inner) is added", ["C10"]),
    "C19h-modulation-queue-refilled-from-zero": ("C19", "phase modulation and a run longer than 16384 steps whose modulation period does not divide 16384 steps: the queue is filled in blocks and every refill restarts the sine at phase 0", ["C17"]),
    "C20h-unsigned-values-above-int-max-refused": ("C20", "a legal value of 2^31 or more for an unsigned 32-bit option (--outstep 4294967295): the validator reads it through a signed 32-bit conversion and refuses it as invalid", ["C13"]),
    "C11h-nonregular-start-file-means-none": ("C11", "-i naming something that is not an existing regular file (a mistyped name, a directory): the '/dev/null means none' test was generalised to 'not a regular file', the run silently starts from the built-in Gaussian", ["C20"]),
    "C12h-loop-length-rounded-to-output-cadence": ("C12", "an output cadence that does not divide the step count: the loop runs on to the next multiple of outstep, the number of simulated steps and the final state depend on -n", ["C10", "C14"]),
    "C12i-renormalise-before-ps-append-from-file": ("C12", "started from a results file with RenormalizeCharge >= 0: the grid is renormalised right before every in-loop phase-space record, so the trajectory depends on SavePhaseSpace / the output cadence", ["C11", "C14"]),
    "C14h-projection-update-skipped-on-abort": ("C14", "a run without any impedance (no wake map) interrupted inside a step: the projection update at the end of the step is skipped, the final record's profile, population and moments belong to the previous step", []),
    "C15h-upper-clamp-before-step": ("C15", "the stochastic tracker with a particle within a few noise widths of the last energy row (narrow energy range, particle clamped to the top row): the upper bound is applied before the damping/noise step is subtracted, the particle ends above row n-1", ["C17"]),
    "C17h-txt-particles-sized-by-newlines": ("C17", "a text start distribution with more coordinate pairs than newline characters (last line unterminated, several pairs on one line): pairs are stored into a vector sized by the newline count", []),
    "C18h-padding-cleared-by-bytes": ("C18", "one field object serving wake/padding and then CSR requests with two or more bunches: updateCSR clears the padding with memset(count in samples), only a quarter of it - left-overs of the train beyond nx + (nmax-nx)/4 are transformed along", ["C07", "C06"]),
    "C02i-odd-stencil-round-vs-remainder-tie": ("C02", "3-point interpolation and an offset of exactly k+0.5 with n/2+k even (0.5, 2.5, -1.5 on power-of-two grids): the stencil centre comes from round() (halves away from zero), the fraction from remainder() (halves to even) - one full cell off", ["C01", "C15"]),
    "C06i-loss-spectrum-filled-up-to-last-sample": ("C06", "an impedance that is exactly zero from some frequency below N/2 on and a second wakePotential() call on the same field: the loss spectrum is only filled up to the last non-zero sample, the inverse transform's leftovers above it are never rewritten", ["C18", "C07"]),
    "C07i-spectrum-loop-stops-at-grid-size": ("C07", "a padding factor above 2 and a profile with structure finer than the padding factor in cells: the spectrum / power loop runs over the grid size instead of the padded length, bins nx..N/2 are left out", ["C10", "C18"]),
    "C09i-normalize-by-rectangle-charge": ("C09", "a profile with cell-to-cell structure (macro-particle start, odd/even pattern): normalize() measures the bunch charge with the rectangle rule on the spot while populations are Simpson integrals - after renormalisation a bunch integrates to share x Simpson/rectangle", ["C10", "C04"]),
    "C10i-projection-update-skipped-off-cadence": ("C10", "no beam-dynamics impedance, RenormalizeCharge <= 0, a final step off the output cadence and an evolving distribution: the position projection is only refreshed when somebody looks, the final block does not look - its profile, population, moments are those of the last output step", ["C14", "C12"]),
    "C01i-row-copy-cache-wrong-initial-state": ("C01", "a displacement field that BEGINS with rows exactly at rest (row 0 onwards) and charge in those rows: a 'same offset as the row before' shortcut starts with lastoffs = 0 and copies never-computed scratch entries (weight 0) - those rows are zeroed", ["C02", "C08"]),
    "C03i-fraction-from-offset-hair-beyond-zero": ("C03", "a grid shift that puts a mesh point a hair beyond the axis zero (--PhaseSpaceShiftX/Y 0.49998): the kick of that row is about -1e-6 cells, the fraction is taken from the offset and the origin from the rounded sum - the row through the bunch centre moves one cell every step", ["C02", "C01"]),
    "C08i-identical-bunch-copy-from-bunch0": ("C08", "three or more bunches with a run of bit-identical bunches that does not start at bunch 0 and differs from bunch 0 (-I 2e-3 1e-3 1e-3), no impedance: the drift copies the result of 'the predecessor' from bunch 0's block", ["C03"]),
    "C04i-quadratic-stencil-one-cell-high": ("C04", "--InterpolationPoints 3 with a number of steps per period that is not small against the grid size: the three nodes sit one cell too high (weights unchanged), every kick and drift carries the bunch one extra cell, the centroid spirals out", ["C02", "C03"]),
    "C05i-wake-table-drops-whole-cells": ("C05", "a wake kick of one cell per step or more in the core (fine grid, few steps per period, order-one potential-well distortion, e.g. -s 128 -N 24 at 15 mA): the wake map's own table builder applies W - floor(W) while the record shows W", ["C08", "C01"]),
    "C13i-zoom-dropped-when-start-file-option-present": ("C13", "InitialDistFile given anywhere (in particular -i /dev/null, 'no read-in', over a parent config naming a file) plus a non-default InitialDistZoom: the zoom line is dropped from the saved .cfg whenever the start-file OPTION is present", []),
    "C15i-drift-particles-by-secant-slope": ("C15", "particle tracking with a nonlinear momentum compaction (--alpha1 / --alpha2) and a particle away from zero energy: a new DriftMap::applyTo moves particles by the secant slope of the displacement table, the grid by the curved table", []),
    "C16i-wall-scales-with-mu-not-sqrt-mu": ("C16", "a non-zero wall susceptibility with a positive conductivity: a skin-depth rewrite leaves mu_r out of the skin depth, the wall impedance scales with (1+xi) instead of sqrt(1+xi)", []),
    "C19i-verbose-log-drains-modulation-records": ("C19", "RF modulation with --verbose and an HDF5 output with outstep > 0: a verbose status line reads getPastModulation() (which empties the store) right before the records are written - only those after the last in-loop output reach the file", ["C12"]),
    "C20i-tracking-in-config-has-no-target": ("C20", "the option tracking given in a config file and not on the command line: the config-file twin of the option lost its store-to pointer, the value never reaches the member (the saved .cfg still shows it)", ["C13"]),
    "C14i-ps-axis-keeps-time-stamps-unique": ("C14", "an interrupt before the first step (set-up, points S0..S14) with the default SavePhaseSpace 0: the phase-space time axis only takes a stamp later than the last one, the final record repeats t=0 - /PhaseSpace/data has 2 records, its axis 1 (also an uninterrupted -T 0 run)", ["C10"]),
    "C17i-start-file-read-with-stored-type": ("C17", "an .h5 start file whose /PhaseSpace/data holds 64-bit floats (h5py default, a double-precision build): the record is read with the file's datatype as memory type, 8 bytes per cell into a 4-byte-per-cell buffer", ["C11"]),
    "C11i-output-probe-empties-in-place-start": ("C11", "the start file and the results file are the same file (-i run.h5 -o run.h5, continuing in place): an early 'can the old results file be replaced' probe opens an ofstream on it, the start file is empty by the time it is read (same circumstance as C12g, another site)", ["C12"]),
    "C18i-unchanged-profile-shortcut-first-bunch-only": ("C18", "two or more bunches, a step in which bunch 0 stays bit-identical while another bunch changes, wakePotential() before and after on one object: an 'unchanged profile' shortcut compares the first bunch only and returns the stored wake of the earlier train", ["C06", "C08"]),
    "C10-": ("C10", "", []),
    "C17-": ("C17", "", []),
    # ---- round 10
    "C01j-none-case-falls-through-weight-1-f": ("C01", "the 1-point scheme (--InterpolationPoints 1) and a displacement with a fractional part in a charged row: a compacted switch gives the single weight 1-f instead of 1, the row keeps only that share of its charge", ["C02", "C03"]),
    "C02j-none-case-break-removed": ("C02", "the 1-point scheme and a fractional displacement: the break ending case none is gone, the single weight becomes 1-f and one element past the caller's 1-element buffer is written", ["C01", "C17"]),
    "C03j-linear-slope-by-cancelling-cosine": ("C03", "linear RF with some 4000 and more steps per synchrotron period: the kick slope is computed as 2(1-cos(angle))/angle in single precision, which cancels (1.5 % off at 4000 steps, -9 % at 10000, no kick beyond 50000)", ["C04", "C19"]),
    "C04j-bunch-length-from-option-alpha0": ("C04", "-f <f_s> together with --LinearRF false: the natural bunch length is computed from the alpha0 option instead of the alpha0 in force, the sinusoidal kick slope is off by their ratio, the bunch length relaxes to 1/sqrt(k)", ["C03", "C05"]),
    "C05j-dynamic-rf-amplitude-taken-as-deviation": ("C05", "any RF noise or modulation option, however small (the dynamic RF map is built): the dynamic map hands 1+amplitude to the static kick as if the queue held a deviation, every kick is doubled, the stationary bunch is 0.74 long", ["C19", "C03", "C04"]),
    "C06j-full-train-copied-in-bunch-order": ("C06", "a train that fills the transform buffer exactly (every bucket filled, spacing = grid width, length nb*nx, descending bucket numbers, unequal bunches): a one-copy short cut puts the profiles into the buffer in bunch order instead of bucket order", ["C10", "C18", "C07"]),
    "C07j-csr-profile-copy-drops-last-cell": ("C07", "charge in the last cell of the position axis (a bunch reaching the upper grid edge, any arbitrary profile): updateCSR copies the profile without its last cell, wakePotential uses all of it", ["C10", "C18"]),
    "C09j-mean-about-grid-centre": ("C09", "a grid whose extent is not symmetric about zero (--PhaseSpaceShiftX/Y, equal shifts are enough): the first moment is summed over (i - (n-1)/2) in cell units - position relative to the grid centre, widths grow by the centre offset", ["C10", "C03"]),
    "C10j-spectrum-only-with-phase-space-records": ("C10", "--SavePhaseSpace >= 2 and at least two output steps: /CSR/Spectrum/data is appended only at the output steps that also write the phase space, its time axis and /CSR/Intensity go on at every output step", ["C12", "C14"]),
    "C11j-start-record-range-check-symmetric": ("C11", "--InitialDistStep equal to the number of records in the file: the range check became abs(step) > records, the index N passes and is wrapped to record 0", ["C17"]),
    "C12j-lossy-filter-on-phase-space-chunks": ("C12", "a low-density phase space (InitialDistZoom 3 and more, a weak bunch of a train) and runs whose phase-space records share chunks with different companions: a scale-offset filter on /PhaseSpace/data is lossy relative to the chunk minimum, what is read back depends on SavePhaseSpace / -n", ["C11", "C10"]),
    "C13j-bunchcurrent-validator-per-occurrence": ("C13", "a filling pattern that starts with an empty bucket (-I 0 2e-3 1e-3): a new validator rejects a pattern without charge per occurrence of the option, the saved .cfg holds one BunchCurrent line per bucket and its first line alone is refused", ["C20"]),
    "C14j-exit-failure-on-abort-without-file": ("C14", "a run without a results file (--run_anyway, no -o) that is interrupted: main returns EXIT_FAILURE when the abort flag is set and no file is open", ["C20"]),
    "C15j-fp-particle-damping-ignores-fptype": ("C15", "--FPTrack 1 with --FPType 0 or 2 (no damping on the grid): the particle shift of the first approximation became -damping*energy/cell whatever the Fokker-Planck type, particles are damped while the charge around them is not", ["C04"]),
    "C16j-collimator-radii-in-single-precision": ("C16", "a collimator opening within 1e-5 (relative) of the pipe radius: the radii became single precision, ln(outer/inner) is off by 0.1 % to 20 %, and 0 Ohm when both round to the same float", []),
    "C17j-start-file-bunches-set-nb": ("C17", "an .h5 start file holding more bunches than the configuration has non-zero currents, plus an impedance: the loader sizes the grid by the file's bunch count, the fields read bucket numbers past the end of the vector (SIGSEGV)", ["C11"]),
    "C18j-unrolled-product-loop-no-remainder": ("C18", "a transform length that is twice an odd number (150, 182, 250) and two wakePotential() calls with different profiles: the impedance x form factor loop handles two bins per pass without a remainder pass, bin N/2-1 keeps what the inverse transform left there", ["C06", "C07"]),
    "C19j-record-history-capped": ("C19", "noise or modulation and more than 65536 steps between two collections of the records (outstep 0 or larger than the run, > 65 synchrotron periods at -N 1000): consumed pairs are only kept while the history holds fewer than 65536", ["C10"]),
    "C20j-negative-cldev-returns-false": ("C20", "a negative --cldev on the command line in a build without OpenCL (where the option is accepted and ignored): the preprocessor guard now only wraps the device listing, parse() returns false, nothing runs", ["C13"]),
    "C08j-kick-table-block-rounded-for-reader-only": ("C08", "two or more bunches, a y kick with one table per bunch (wake) and grid size x interpolation points not a multiple of 8 (3 points on 12/20/36 cells): the reader rounds the per-bunch table block up to a multiple of 8, the writer does not", ["C05", "C01", "C17"]),
    # ---- round 11
    "C01k-marker-collision-zeroes-row-at-plus-one": ("C01", "a y kick with 3 or 4 points and a charged row displaced by exactly +1 cell: a fast path takes the row's first table entry (index n/2, weight 0) for the 'kicked beyond the grid' marker and clears the row", ["C02", "C08"]),
    "C02k-full-length-shift-cut-at-n-minus-1": ("C02", "a row displaced by exactly +-(n-1) cells (the largest whole-cell shift that still fits the grid): the beyond-the-grid guard became |offset| < n-1, the one border cell that should arrive on the opposite border is lost", ["C01"]),
    "C03k-drift-power-not-advanced-over-zero-order": ("C03", "--alpha2 non-zero while --alpha1 is zero: the drift's power of the energy is a running product that is not advanced over a skipped zero coefficient, the cubic term becomes a quadratic one", ["C15", "C04"]),
    "C04k-diffusion-per-points-not-intervals": ("C04", "coarse grids (64 cells and fewer): the diffusion coefficient uses cells per unit energy = points/length instead of intervals/length, the equilibrium width is 1+1/N (1.5 % at 64 cells, 2.4 % at 32)", ["C05", "C01"]),
    "C05k-energy-variance-about-position-mean": ("C05", "a stationary bunch displaced in phase by a resistive impedance at order-one distortion (<q> 0.16 - 0.28): the energy variance is taken about the position centroid, the recorded energy spread reads sqrt(1+<q>^2)", ["C09", "C10"]),
    "C06k-dc-term-of-wake-losses-dropped": ("C06", "an impedance with Re Z(0) != 0 (collimator, constant, a table): the product loop starts at bin 1 and bin 0 of the wake losses is set to zero", ["C10", "C07", "C05"]),
    "C07k-csr-weights-frozen-at-construction": ("C07", "the shared Impedance object is modified (+=) after the field was constructed and before updateCSR(): the spectrum uses weights dq^2 Re Z copied at construction, the wake reads the live object", ["C18", "C06"]),
    "C08k-table-offset-bunch-index-8bit": ("C08", "a train of more than 256 bunches and a y kick with one table per bunch (wake): the table offset helper takes the bunch number as an 8-bit integer, bunch 256+k is kicked with the wake of bunch k", ["C01"]),
    "C09k-constructor-normalises-on-bare-profile": ("C09", "a phase space built by the constructor with zoom != 1 (and RenormalizeCharge -1 in the program): the charge is measured on the bare position profile instead of on the data, every bunch holds share x zoom", ["C10", "C04"]),
    "C10k-bunch-charge-from-bending-radius": ("C10", "--BendingRadius given and different from c/(2 pi f_rev): the bunch charge is computed with 2 pi R_bend/c as revolution period, the Coulomb factors of populations, profiles and phase space are off by R_bend/R_ring", ["C13"]),
    "C11k-zero-length-leg-makes-one-step": ("C11", "a leg with -T 0 (split point at the very start or the very end): the step count is max(1, ceil(steps*T)), the leg performs one step", ["C10", "C14"]),
    "C12k-start-record-divided-by-save-cadence": ("C12", "start from a results file with an explicit positive --InitialDistStep and --SavePhaseSpace >= 2: the record index is divided by this run's save cadence, runs differing only in SavePhaseSpace start from different records", ["C11"]),
    "C13k-defaulted-options-not-saved": ("C13", "a parent config that uses a legacy name (steps, RFVoltage, SyncFreq) with the current name given nowhere: save() skips options still flagged as defaulted, and the legacy hand-over leaves the flag set", ["C20"]),
    "C14k-final-block-skipped-on-output-step": ("C14", "an interrupt in the iteration before an output step (outstep n > 0, stop after step k with k % n == 0): the final block is skipped as 'already recorded', the last record is n steps old", ["C10"]),
    "C15k-track-record-interpolated-zero-on-mesh-line": ("C15", "a tracked coordinate that is an exact integer in grid units when output is written (start on a mesh point, clamped to the border): the conversion interpolates with weights ceil(x)-x and x-floor(x), both zero there - the record says 0", ["C10"]),
    "C16k-negative-gap-radius-without-csr": ("C16", "a negative VacuumGap with --UseCSR false and a wall conductivity or a collimator: the pipe radius stays negative, the wall's real part is negative, the collimator is dropped", ["C10", "C05"]),
    "C17k-wake-length-by-bunch-count": ("C17", "several buckets of which exactly one is filled and not the last (-I 1e-3 0) plus an impedance: the wake field's length is chosen by the number of bunches, the bunch is still placed at bucket x spacing - writes far beyond the buffers", ["C06", "C10"]),
    "C18k-csr-skips-transform-if-buffer-equal": ("C18", "padBunchProfiles() directly followed by updateCSR() on one object after the profile changed: the transform is skipped when the padded buffer already equals the profile, the spectrum comes from the previously transformed profile", ["C07"]),
    "C19k-phase-folded-into-one-rf-period": ("C19", "a phase excursion beyond half an RF period (--RFPhaseModAmplitude above about 180 degree): the queued phase is folded into [-pi,pi], records are not the configured sine and the linear model's kick jumps by a full period", ["C10"]),
    "C20k-run-anyway-bool-switch": ("C20", "--run_anyway with an explicit value on the command line (false / 0 / =false): the command-line twin became a bool_switch, the value token is dropped or refused, a config-file true can no longer be overridden", ["C13"]),
    # ---- round 12
    "C01l-pairwise-node-loop-drops-third-node": ("C01", "--InterpolationPoints 3, a y kick and a fractional displacement in a charged row: the node loop of apply() takes two nodes per pass and handles a left-over node only for the 1-point scheme, the third node's share f(f+1)/2 is lost", ["C02", "C08"]),
    "C02l-whole-cell-rows-reuse-stale-weights": ("C02", "one offset field that mixes fractional and whole-cell rows (a whole-cell row after a fractional one), order >= 2: the weights are computed only for rows with a fraction, a whole-cell row keeps the weights of the last fractional row", ["C01"]),
    "C03l-start-file-scales-swapped": ("C03", "an .h5 start file together with the sinusoidal RF: the loader's definition names its trailing scale parameters (dE, bl) while declaration and callers pass (bl, dE), the loaded grid's Meter and ElectronVolt scales are swapped", ["C11", "C10"]),
    "C04l-start-file-energy-scale-relative": ("C04", "an .h5 start file together with the sinusoidal RF, no impedance: main hands the relative energy spread to the loader as the energy-axis scale, the sinusoidal kick is E0 times too large, lengths go NaN", ["C11", "C03"]),
    "C05l-odd-stencil-base-by-rounding": ("C05", "--InterpolationPoints 3: the base index of stencils with a central node comes from round(offset) while the fraction is still offset - floor(offset), rows with a fraction of 0.5 and more move one extra cell", ["C02", "C03", "C01"]),
    "C06l-wake-divided-by-integrated-charge": ("C06", "a phase space whose integrated charge differs from 1 (charge lost without renormalisation, non-unit profiles through the API) and integrate() called since: the wake is divided by that charge", ["C10", "C07"]),
    "C07l-power-by-complex-product-cancellation": ("C07", "an almost purely reactive passive impedance (|Im Z| a million times Re Z, or Re Z = 0): the spectrum bin is Re((Z F) conj(F)) in single precision, the reactive part no longer cancels exactly - negative bins, negative power", ["C18"]),
    "C08l-lower-bound-from-array-start": ("C08", "two or more bunches, a y kick towards lower energy at the first column and charge in the top rows of the preceding bunch's last column: the lower bound of the source row is measured from the start of the whole array, the neighbouring bunch's cells are read", ["C01", "C17"]),
    "C09l-energy-projection-skips-empty-position-rows": ("C09", "data replaced through getData() with charge in rows whose position projection is exactly zero, and updateYProjection() called before updateXProjection(): rows with an empty position projection are skipped", ["C10"]),
    "C10l-time-stamp-by-running-float-sum": ("C10", "thousands of output records with an increment outstep/N that is not a power of two (-N 600 -n 2 -T 40): record time stamps are a running single-precision sum, they drift from step/N and the axis is not increasing at the final record", ["C12", "C14"]),
    "C11l-rank3-start-file-always-record-0": ("C11", "a start file in the older three-dimensional layout with more than one record: the time offset of the hyperslab is only set for four-dimensional files, record 0 is always read", ["C17"]),
    "C12l-time-stamp-float-sum-depends-on-cadence": ("C12", "two runs differing only in -n with a step count per period that is not a power of two (-N 50): in-loop time stamps are a running single-precision sum, a common record's stamp depends on how many records were written before it", ["C10"]),
    "C13l-float-options-saved-with-8-digits": ("C13", "a single-precision option given with nine significant digits in a range where neighbouring floats share their 8-digit form (-F 1000123.45): the .cfg writer uses digits10+2 = 8 digits for floats", ["C20"]),
    "C14l-final-record-without-phase-space-off-stride": ("C14", "SavePhaseSpace n >= 2, outstep > 0 and an interrupt when the number of output blocks done is not a multiple of n: the final record is written without its phase space", ["C10", "C11"]),
    "C15l-approx1-distance-assumes-upper-stencil": ("C15", "--FPTrack 1 with the cubic stencil and a particle at negative energy: the distance from the target row to each stencil node is taken as 1-j, which holds for the upper half only - the mirrored stencil below zero energy is off by one", ["C04"]),
    "C16l-table-row-labelled-zero-dropped": ("C16", "an impedance file whose first row is labelled harmonic 0: the repeated-line sentinel starts at 0, the first row is taken for a repeat and dropped, every value moves down one index", ["C17", "C10"]),
    "C17l-spaced-length-from-unrounded-spacing": ("C17", "three or more buckets, RoundPadding false, a bucket spacing whose length in cells rounds up and buckets that nearly touch: the train buffer's lower bound uses the unrounded spacing, the last bunch is written a few floats past the buffers", ["C06", "C10"]),
    "C18l-nonfinite-wake-sample-keeps-old-value": ("C18", "a wake that overflows single precision for the current profile but not for an earlier one on the same object: a non-finite sample is not stored, the array keeps the earlier profile's value", ["C06"]),
    "C19l-modulation-step-from-rounded-run-length": ("C19", "RF phase modulation and a -T for which N*T is not an integer (-T 0.4 at -N 64; 1.3; 0.26): the modulation time step is total time / ceil(steps), the recorded and applied modulation frequency is low by steps*T/ceil(steps*T)", ["C10"]),
    "C20l-config-validation-skips-options-on-cli": ("C20", "a config file holding a malformed value for an option that is also given validly on the command line: the scratch map that validates the file is copied from the command-line map, boost skips the option - no message, exit status 0", ["C13"]),
}


def sh(cmd, **kw):
    return subprocess.run(cmd, shell=isinstance(cmd, str), capture_output=True, text=True, **kw)


def run_one(sid, prop, tier):
    pd = os.path.join(V, "seeded", sid, "patch.diff")
    if sh("git -C /repo diff --quiet").returncode != 0:
        raise SystemExit("/repo is not clean")
    r = sh("git -C /repo apply %s" % pd)
    how = "git apply"
    if r.returncode != 0:
        r = sh("cd /repo && patch -p1 -F3 -s --no-backup-if-mismatch < %s" % pd)
        how = "patch -p1 -F3 (context drifted since the seed was made)"
        if r.returncode != 0:
            sh("git -C /repo checkout -- .")
            return dict(applied=False, how=how, detail=(r.stdout + r.stderr)[-300:])
    try:
        c = sh([sys.executable, os.path.join(V, "tools", "vcheck.py"), prop, tier], cwd=V)
    finally:
        sh("git -C /repo checkout -- .")
        sh("git -C /repo clean -fdq -e _build")
    keys = re.findall(r"^  key=(\S+)", c.stderr, re.M)
    nv = len(re.findall(r"^VIOLATION property=", c.stdout, re.M))
    out = dict(applied=True, how=how, check="python3 tools/vcheck.py %s %s" % (prop, tier), exit=c.returncode, violation_lines=nv, keys=keys[:6],
               detected=(c.returncode == 1 and nv > 0))
    if c.returncode not in (0, 1) or (c.returncode == 1 and nv == 0):
        out["error"] = "the check did not run to a verdict (build failure of the patched tree?): " + (c.stdout + c.stderr)[-300:]
    return out


def main():
    args = sys.argv[1:]
    tier = "quick"
    if "--tier" in args:
        tier = args[args.index("--tier") + 1]
        args = [a for a in args if a not in ("--tier", tier)]
    ids = sorted(d for d in os.listdir(os.path.join(V, "seeded")) if os.path.isdir(os.path.join(V, "seeded", d)))
    for sid in ids:
        if args and sid not in args:
            continue
        entry = SEEDS.get(sid) or next((v for k, v in SEEDS.items() if k.endswith("-") and sid.startswith(k)), None)
        if entry is None:
            print("no table entry for", sid)
            continue
        prop, needs, also = entry
        mp = os.path.join(V, "seeded", sid, "meta.json")
        meta = json.load(open(mp)) if os.path.exists(mp) else {}
        meta.update(seed=sid, breaks_property=prop, needs_to_manifest=needs or meta.get("needs_to_manifest", ""),
                    origin="written by an independent sub-agent that saw only the property text and a scratch worktree of the repository; confirmed by tools/seed_confirm.sh "
                           "(with the change: the 42 baseline tests pass and the demonstration fails; without it the demonstration passes)",
                    demonstration="demo/ (run.sh builds and runs it in a worktree); demo_with_change.tail.txt / demo_without_change.tail.txt hold the confirmation output")
        runs = meta.setdefault("checks_run", {})
        for p in [prop] + also:
            res = run_one(sid, p, tier)
            runs["%s %s" % (p, tier)] = res
            print(sid, p, tier, "DETECTED" if res.get("detected") else ("ERROR " + res["error"][-120:] if res.get("error") else "NOT-APPLIED" if not res.get("applied") else "missed"), res.get("keys", [])[:2], flush=True)
        with open(mp, "w") as f:
            json.dump(meta, f, indent=1)


if __name__ == "__main__":
    main()
