#!/usr/bin/env python3
"""Content-hash-cached builds of Inovesa (from the *working tree* of $VERIF_REPO, default /repo)
and of the verification harnesses.  Nothing is taken from /repo/_build.

  build.py lib-plain | bin-plain | bin-hook | lib-san | bin-san | bin-vg | h5json | harness <name> [san]

prints the path of the artefact on stdout (last line).
"""
import glob
import hashlib
import threading
import os
import re
import subprocess
import sys
import concurrent.futures as cf

VERIF = os.path.dirname(os.path.dirname(os.path.abspath(__file__)))
REPO = os.environ.get("VERIF_REPO", "/repo")
BUILD = os.path.join(VERIF, "build")
# distinct trees get distinct build roots so a scratch tree never poisons the cache of /repo
if os.path.realpath(REPO) != "/repo":
    BUILD = os.path.join(BUILD, "alt-" + hashlib.sha1(os.path.realpath(REPO).encode()).hexdigest()[:10])
GEN = os.path.join(BUILD, "gen")
CXX = os.environ.get("VERIF_CXX", "g++")
H5INC = "/usr/include/hdf5/serial"
H5LIB = "/usr/lib/x86_64-linux-gnu/hdf5/serial"
LIBS = ["-lboost_filesystem", "-lboost_program_options", "-lboost_system", "-lfftw3f", "-lfftw3",
        "-L" + H5LIB, "-lhdf5_cpp", "-lhdf5", "-Wl,-rpath," + H5LIB, "-lpthread"]
DEFS = ["-DINOVESA_ENABLE_INTERRUPT=1", "-DINOVESA_USE_HDF5=1", "-DINOVESA_USE_OPENCL=0",
        "-DINOVESA_USE_OPENGL=0", "-DINOVESA_USE_PNG=0", '-DGIT_BRANCH="main"', '-DGIT_COMMIT="verif"']
BASE = ["-std=c++14", "-fext-numeric-literals", "-w"]
OPT = {
    "plain": ["-O2", "-g0", "-DNDEBUG", "-O3", "-march=native"],
    "hook": ["-O2", "-g0", "-DNDEBUG", "-O3", "-march=native", "-DINOVESA_VERIF=1"],
    # -O0 on purpose: g++ -O1 ASan misses the 8-byte complex<float> over-read in Impedance::operator+=
    "san": ["-O0", "-g", "-fno-omit-frame-pointer", "-fsanitize=address,undefined",
            "-fsanitize=float-cast-overflow", "-fno-sanitize-recover=all"],
    "vg": ["-O1", "-g"],
}
SANLINK = ["-fsanitize=address,undefined"]
NJOBS = int(os.environ.get("VERIF_JOBS", "16"))


def log(*a):
    print("[build]", *a, file=sys.stderr, flush=True)


def sha(*parts):
    h = hashlib.sha1()
    for p in parts:
        h.update(p if isinstance(p, bytes) else str(p).encode())
        h.update(b"\0")
    return h.hexdigest()


def read(p):
    with open(p, "rb") as f:
        return f.read()


def gen_config():
    os.makedirs(GEN, exist_ok=True)
    cm = read(os.path.join(REPO, "CMakeLists.txt")).decode()
    tpl = read(os.path.join(REPO, "InovesaConfig.hpp.in")).decode()
    for k in ("MAJOR", "MINOR", "FIX"):
        m = re.search(r"set\s*\(INOVESA_VERSION_%s\s+(-?\d+)\)" % k, cm)
        tpl = tpl.replace("@INOVESA_VERSION_%s@" % k, m.group(1) if m else "0")
    out = os.path.join(GEN, "InovesaConfig.hpp")
    if not os.path.exists(out) or read(out).decode() != tpl:
        with open(out, "w") as f:
            f.write(tpl)


def sources():
    s = sorted(glob.glob(os.path.join(REPO, "src", "**", "*.cpp"), recursive=True))
    return s


def headers_hash():
    hs = sorted(glob.glob(os.path.join(REPO, "inc", "**", "*.hpp"), recursive=True))
    return sha(*[read(h) for h in hs], read(os.path.join(GEN, "InovesaConfig.hpp")))


def run(cmd):
    r = subprocess.run(cmd, capture_output=True, text=True)
    if r.returncode != 0:
        sys.stderr.write(" ".join(cmd) + "\n" + r.stdout + r.stderr)
        raise SystemExit("build failed")


def _tmp(path):
    """a private name next to `path`: outputs are written there and renamed into place, so that a concurrent thread or process
    never executes (ETXTBSY) or links a half-written file"""
    return "%s.tmp.%d.%d" % (path, os.getpid(), threading.get_ident())


def _stamp(stamp, key):
    tmp = _tmp(stamp)
    with open(tmp, "w") as f:
        f.write(key)
    os.replace(tmp, stamp)


_LOCK = threading.RLock()


def _locked(fn):
    def w(*a, **k):
        with _LOCK:
            return fn(*a, **k)
    w.__name__ = fn.__name__
    return w


def _compile(job):
    cmd, o = job
    tmp = _tmp(o) + ".o"
    run(cmd + [tmp])
    os.replace(tmp, o)


def compile_objs(kind):
    """compile every TU of src/ for option set `kind`; returns {src: obj}"""
    gen_config()
    hh = headers_hash()
    flags = BASE + OPT[kind] + DEFS + ["-I" + GEN, "-I" + os.path.join(REPO, "inc"), "-I" + H5INC]
    odir = os.path.join(BUILD, "obj-" + kind)
    os.makedirs(odir, exist_ok=True)
    jobs, objs = [], {}
    for s in sources():
        rel = os.path.relpath(s, REPO).replace("/", "_")
        key = sha(read(s), hh, " ".join(flags), CXX)[:16]
        o = os.path.join(odir, "%s.%s.o" % (rel, key))
        objs[s] = o
        if not os.path.exists(o):
            olds = sorted(glob.glob(os.path.join(odir, rel + ".*.o")), key=os.path.getmtime)
            for old in olds[:-3]:   # keep a few versions: seeds / mutants are applied and reverted all the time
                os.remove(old)
            jobs.append(([CXX] + flags + ["-c", s, "-o"], o))
    if jobs:
        log("compiling %d TUs (%s)" % (len(jobs), kind))
        with cf.ThreadPoolExecutor(NJOBS) as ex:
            list(ex.map(_compile, jobs))
    return objs, flags


def is_main(s):
    return s.endswith(os.path.join("src", "main.cpp"))


@_locked
def build_lib(kind):
    objs, flags = compile_objs(kind)
    members = [o for s, o in objs.items() if not is_main(s)]
    key = sha(*members)[:16]
    lib = os.path.join(BUILD, "libino-%s.a" % kind)
    stamp = lib + ".key"
    if not (os.path.exists(lib) and os.path.exists(stamp) and read(stamp).decode() == key):
        tmp = _tmp(lib)
        run(["ar", "rcs", tmp] + members)
        os.replace(tmp, lib)
        _stamp(stamp, key)
    return lib, flags, key


@_locked
def build_bin(kind):
    libkind = "plain" if kind == "hook" else kind
    lib, _, libkey = build_lib(libkind)
    objs, flags = compile_objs(kind) if kind != "hook" else (None, None)
    if kind == "hook":
        # only main.cpp differs: compile it with the guard on, link against the plain library
        gen_config()
        hh = headers_hash()
        flags = BASE + OPT[kind] + DEFS + ["-I" + GEN, "-I" + os.path.join(REPO, "inc"), "-I" + H5INC]
        s = os.path.join(REPO, "src", "main.cpp")
        odir = os.path.join(BUILD, "obj-hook")
        os.makedirs(odir, exist_ok=True)
        mo = os.path.join(odir, "main.%s.o" % sha(read(s), hh, " ".join(flags))[:16])
        if not os.path.exists(mo):
            for old in glob.glob(os.path.join(odir, "main.*.o")):
                os.remove(old)
            _compile(([CXX] + flags + ["-c", s, "-o"], mo))
    else:
        mo = [o for s, o in objs.items() if is_main(s)][0]
    bdir = os.path.join(BUILD, "bin-" + kind)
    os.makedirs(bdir, exist_ok=True)
    exe = os.path.join(bdir, "inovesa")
    key = sha(mo, libkey)[:16]
    stamp = exe + ".key"
    if not (os.path.exists(exe) and os.path.exists(stamp) and read(stamp).decode() == key):
        tmp = _tmp(exe)
        run([CXX, mo, lib] + (SANLINK if kind == "san" else []) + LIBS + ["-o", tmp])
        os.replace(tmp, exe)
        _stamp(stamp, key)
    return exe


@_locked
def build_h5json():
    src = os.path.join(VERIF, "tools", "h5json.cpp")
    exe = os.path.join(VERIF, "build", "h5json")
    os.makedirs(os.path.dirname(exe), exist_ok=True)
    key = sha(read(src))[:16]
    stamp = exe + ".key"
    if not (os.path.exists(exe) and os.path.exists(stamp) and read(stamp).decode() == key):
        tmp = _tmp(exe)
        run([CXX, "-std=c++14", "-O2", "-w", "-I" + H5INC, src, "-L" + H5LIB, "-lhdf5_cpp", "-lhdf5",
             "-Wl,-rpath," + H5LIB, "-o", tmp])
        os.replace(tmp, exe)
        _stamp(stamp, key)
    return exe


@_locked
def build_harness(name, kind="plain"):
    lib, flags, libkey = build_lib(kind)
    src = os.path.join(VERIF, "harness", name + ".cpp")
    common = [read(p) for p in sorted(glob.glob(os.path.join(VERIF, "harness", "*.hpp")))]
    hflags = flags + ["-fno-access-control", "-DINOVESA_ALLOW_PS_RESET=1", "-I" + os.path.join(VERIF, "harness"),
                      "-fopenmp"]
    hdir = os.path.join(BUILD, "harness-" + kind)
    os.makedirs(hdir, exist_ok=True)
    exe = os.path.join(hdir, name)
    key = sha(read(src), libkey, " ".join(hflags), *common)[:16]
    stamp = exe + ".key"
    if not (os.path.exists(exe) and os.path.exists(stamp) and read(stamp).decode() == key):
        log("building harness %s (%s)" % (name, kind))
        tmp = _tmp(exe)
        run([CXX] + hflags + [src, lib] + (SANLINK if kind == "san" else []) + LIBS + ["-fopenmp", "-o", tmp])
        os.replace(tmp, exe)
        _stamp(stamp, key)
    return exe


def main(argv):
    if not argv:
        raise SystemExit(__doc__)
    t = argv[0]
    if t.startswith("lib-"):
        print(build_lib(t[4:])[0])
    elif t.startswith("bin-"):
        print(build_bin(t[4:]))
    elif t == "h5json":
        print(build_h5json())
    elif t == "harness":
        print(build_harness(argv[1], argv[2] if len(argv) > 2 else "plain"))
    elif t == "all":
        build_lib("plain"); build_bin("plain"); build_h5json()
        print("ok")
    else:
        raise SystemExit(__doc__)


if __name__ == "__main__":
    main(sys.argv[1:])
