#!/usr/bin/env python3
"""Demonstrate detection: apply small property-breaking source changes (each verified to leave the 42 baseline tests green,
DESIGN.md section 8.1) to a scratch copy of /repo, point the checks at it (VERIF_REPO) and require a VIOLATION.
   mutate.py [--tests] [--tier quick] [id ...]        (no ids: all)
Scratch trees live under /tmp/vmut and are removed after each mutant, together with their build output."""
import json
import os
import shutil
import subprocess
import sys

VERIF = os.path.dirname(os.path.dirname(os.path.abspath(__file__)))
SCR = "/tmp/vmut"

# id, properties expected to flag it, file, old, new
M = [
 ("C01-quad-weight", ["C01", "C02"], "src/SM/SourceMap.cpp", "ic[1] = interpol_t(1)-f*f;", "ic[1] = interpol_t(1)-f;"),
 ("C01-fp-coefficient", ["C01"], "src/SM/FokkerPlanckMap.cpp", "_hinfo[j*_ip+1].weight +=    e1_6d*interpol_t(-6)*pos;", "_hinfo[j*_ip+1].weight +=    e1_6d*interpol_t(-5)*pos;"),
 ("C02-quad-sign", ["C02"], "src/SM/SourceMap.cpp", "ic[0] = f*(f-interpol_t(1))/interpol_t(2);", "ic[0] = f*(f+interpol_t(1))/interpol_t(2);"),
 ("C03-sense", ["C03"], "src/SM/RFKickMap.cpp", "_offset[x] = std::tan(_angle)*(xcenter-x);", "_offset[x] = std::tan(_angle)*(x-xcenter);"),
 ("C03-zerobin", ["C03"], "src/SM/RFKickMap.cpp", "const meshaxis_t xcenter = _in->getAxis(0)->zerobin();", "const meshaxis_t xcenter = (_xsize-1)/2.0f;"),
 ("C03-drift-halved", ["C03"], "src/SM/DriftMap.cpp", "_offset[y] /= _axis[0]->delta();", "_offset[y] /= 2*_axis[0]->delta();"),
 ("C04-diffusion-halved", ["C04"], "src/SM/FokkerPlanckMap.cpp", "const interpol_t e1_d2 = e1/(in->getDelta(1)*in->getDelta(1));", "const interpol_t e1_d2 = e1/(2*in->getDelta(1)*in->getDelta(1));"),
 ("C08-negated-wake-copy", ["C08", "C10"], "src/SM/WakePotentialMap.cpp", "std::copy_n(_field->wakePotential(),PhaseSpace::nb*_xsize,_offset.data());", "std::transform(_field->wakePotential(),_field->wakePotential()+PhaseSpace::nb*_xsize,_offset.data(),[](meshaxis_t v){return -v;});"),
 ("C06-bucket-order", ["C06"], "src/PS/ElectricField.cpp", "* _wakepotential_padded[_bucket[b]*_spacing_bins+x];", "* _wakepotential_padded[_bucket[PhaseSpace::nb-1-b]*_spacing_bins+x];"),
 ("C06-frequency-shift", ["C06"], "src/PS/ElectricField.cpp", "_wakelosses[i]= (*_impedance)[i] *_formfactor[i];", "_wakelosses[i]= (*_impedance)[i+1] *_formfactor[i];"),
 ("C07-norm-abs", ["C07"], "src/PS/ElectricField.cpp", "* std::norm(_formfactor[i]);", "* std::abs(_formfactor[i]);"),
 ("C07-renorm-not-squared", ["C07"], "src/PS/ElectricField.cpp", ", _formfactorrenorm(ps->getDelta(0)*ps->getDelta(0))", ", _formfactorrenorm(ps->getDelta(0))"),
 ("C08-bunch-offset", ["C08", "C01"], "src/SM/KickMap.cpp", "const meshindex_t offs1 = n*_meshsize_kd*_meshsize_pd;", "const meshindex_t offs1 = n*_meshsize_kd;"),
 ("C08-fp-first-bunch-only", ["C08"], "src/SM/FokkerPlanckMap.cpp", "for (uint32_t n=0; n<PhaseSpace::nb; n++) {\n            const meshindex_t offs1 = n*_meshxsize*_ysize;", "for (uint32_t n=0; n<1; n++) {\n            const meshindex_t offs1 = n*_meshxsize*_ysize;"),
 ("C09-average-integral", ["C09"], "src/PS/PhaseSpace.cpp", "avg *= getDelta(axis)/_filling[n];", "avg *= getDelta(axis)/_integral;"),
 ("C09-yprojection-weights", ["C09"], "src/PS/PhaseSpace.cpp", "_projection[1][n][y] += _data[n][x][y]*_ws[x];", "_projection[1][n][y] += _data[n][x][y]*_ws[y];"),
 ("C09-variance-bunch0", ["C09"], "src/PS/PhaseSpace.cpp", "                                                        -_moment[axis][0][n],2);", "                                                        -_moment[axis][0][0],2);"),
 ("C16-loop-bound", ["C16"], "src/Z/FreeSpaceCSR.cpp", "for (size_t i=0; i<=n/2; i++) {", "for (size_t i=0; i<n; i++) {"),
 ("C16-wall-sign", ["C16"], "src/Z/ResistiveWall.cpp", ") * impedance_t(1,-1);", ") * impedance_t(1,1);"),
 ("C16-factory-assign", ["C16"], "src/Z/ImpedanceFactory.cpp", "*rv += CollimatorImpedance(nfreqs,fmax,radius,inner_coll_radius);", "*rv = CollimatorImpedance(nfreqs,fmax,radius,inner_coll_radius);"),
 ("C07-conditional-copy", ["C07"], "src/PS/ElectricField.cpp", "            std::copy_n(bp.origin(),PhaseSpace::nx,_bp_padded);\n\n            //FFT charge density", "            if (n == 0) std::copy_n(bp.origin(),PhaseSpace::nx,_bp_padded);\n\n            //FFT charge density"),
 ("C18-intensity-accumulates", ["C18"], "src/PS/ElectricField.cpp", "        _csrintensity[n] = 0;\n", ""),
 ("C18-no-clear", ["C18"], "src/PS/ElectricField.cpp", "    std::fill_n(_bp_padded,_nmax,static_cast<integral_t>(0));\n    for (uint32_t b=0; b<PhaseSpace::nb; b++) {", "    for (uint32_t b=0; b<PhaseSpace::nb; b++) {"),
 ("C19-records-dropped", ["C19"], "src/SM/DynamicRFKickMap.cpp", "    _past_modulation.emplace_back(std::move(_next_modulation.front()));", "    if (_past_modulation.size()<3) _past_modulation.emplace_back(std::move(_next_modulation.front()));"),
 ("C19-pop-before-use", ["C19"], "src/SM/DynamicRFKickMap.cpp", "void vfps::DynamicRFKickMap::apply() {\n    _calcKick();", "void vfps::DynamicRFKickMap::apply() {\n    if (_next_modulation.size() > 1) { _past_modulation.emplace_back(_next_modulation.front()); _next_modulation.pop(); }\n    _calcKick();"),
 ("C15-stochastic-no-upper-clamp", ["C15"], "src/SM/FokkerPlanckMap.cpp", "                        , std::min(pos.y, static_cast<meshaxis_t>(_ysize-1)));\n        break;", "                        , pos.y);\n        break;"),
 ("C10-position-axis", ["C10"], "src/IO/HDF5File.cpp", "_positionAxis.dataset.write(ps->getAxis(0)->data(),_positionAxis.datatype);", "_positionAxis.dataset.write(ps->getAxis(1)->data(),_positionAxis.datatype);"),
 ("C10-time-axis", ["C10"], "src/main.cpp", "                hdf_file->append(*grid_t1,\n                        static_cast<double>(simulationstep)/steps, at);", "                hdf_file->append(*grid_t1,\n                        static_cast<double>(simulationstep+1)/steps, at);"),
 ("C11-default-record", ["C11"], "src/IO/ProgramOptions.cpp", "&_startdiststep)->default_value(-1),", "&_startdiststep)->default_value(0),"),
 ("C12-normalize-in-output", ["C12"], "src/main.cpp", "            // works on XProjection\n            grid_t1->integrate();\n            grid_t1->variance(0);", "            // works on XProjection\n            grid_t1->integrateAndNormalize();\n            grid_t1->variance(0);"),
 ("C13-skip-padding", ["C13"], "src/IO/ProgramOptions.cpp", '        || it->first == "run_anyway"', '        || it->first == "run_anyway"\n        || it->first == "padding"'),
 ("C14-no-final-record", ["C14"], "src/main.cpp", "    // save final result\n    if (hdf_file != nullptr) {", "    // save final result\n    if (hdf_file != nullptr && !Display::abort) {"),
 ("C14-failure-status", ["C14"], "src/main.cpp", '        Display::printText("Aborted.");', '        Display::printText("Aborted.");\n        return EXIT_FAILURE;'),
 ("C20-no-compat", ["C20"], "src/IO/ProgramOptions.cpp", "    _cfgfileopts.add(_compatopts);\n", ""),
 ("C17-no-room-for-last-bucket", ["C17"], "src/main.cpp", "    spaced_bins = std::max( spaced_bins\n                          , static_cast<size_t>(nbuckets-1)*spacing_bins+ps_bins);\n", ""),
]


def sh(cmd, **kw):
    return subprocess.run(cmd, shell=isinstance(cmd, str), capture_output=True, text=True, **kw)


def main():
    args = sys.argv[1:]
    tests = "--tests" in args
    tier = "quick"
    if "--tier" in args:
        tier = args[args.index("--tier") + 1]
    ids = [a for a in args if not a.startswith("--") and a != tier]
    results = []
    for mid, props, path, old, new in M:
        if ids and mid not in ids:
            continue
        d = os.path.join(SCR, mid)
        shutil.rmtree(d, ignore_errors=True)
        os.makedirs(d)
        for sub in ("src", "inc", "test"):
            shutil.copytree(os.path.join("/repo", sub), os.path.join(d, sub))
        for f in ("CMakeLists.txt", "InovesaConfig.hpp.in"):
            shutil.copy(os.path.join("/repo", f), d)
        p = os.path.join(d, path)
        s = open(p).read()
        if s.count(old) != 1:
            results.append((mid, "ANCHOR-NOT-FOUND(%d)" % s.count(old), {}))
            shutil.rmtree(d, ignore_errors=True)
            continue
        open(p, "w").write(s.replace(old, new))
        row = {}
        if tests:
            r = sh("/root/agent_tools/build_wt.sh %s && cd %s/test && ../_b/inovesa-test 2>&1 | tail -3" % (d, d))
            row["tests"] = "pass" if "No errors detected" in r.stdout else "FAIL"
        env = dict(os.environ, VERIF_REPO=d)
        for prop in props:
            if not os.path.exists(os.path.join(VERIF, "checks", prop + ".py")):
                row[prop] = "no-check-yet"
                continue
            r = sh([sys.executable, os.path.join(VERIF, "tools", "vcheck.py"), prop, tier], env=env, cwd=VERIF)
            nv = sum(1 for l in r.stdout.splitlines() if l.startswith("VIOLATION property="))
            row[prop] = "DETECTED(%d)" % nv if r.returncode == 1 and nv else "missed(rc=%d)" % r.returncode
        results.append((mid, "ok", row))
        print(mid, row, flush=True)
        # remove the scratch tree and its alt build directory
        shutil.rmtree(d, ignore_errors=True)
        import hashlib
        alt = os.path.join(VERIF, "build", "alt-" + hashlib.sha1(os.path.realpath(d).encode()).hexdigest()[:10])
        shutil.rmtree(alt, ignore_errors=True)
    # NOTE: checks run against a scratch tree rewrite evidence/<id>.json; re-run the real checks before committing evidence
    out = os.path.join(VERIF, "build", "mutation_results.json")
    with open(out, "w") as f:
        json.dump([dict(id=m, status=s, result=r) for m, s, r in results], f, indent=1)
    print("written", out)


if __name__ == "__main__":
    main()
