#!/usr/bin/env python3
"""Systematic mutation analysis of the checks (a search for what they do NOT see).

   automut.py [--files f1,f2,...] [--max N] [--start K] [--stride S] [--only file:line[:rule],...] [--out results.jsonl] [--tier quick]

Generates first-order mutants of the Inovesa sources by rule (relational operator boundaries, +/- , min/max, floor/ceil/round, axis index 0/1,
small constants, x/y size names, dropped call statements) - only in code that is compiled in this build (OpenCL / OpenGL / profiling blocks are
skipped) - applies each to a scratch copy of the repository under /tmp/amut (removed at the end), and
  1. builds it and runs the repository's own 42 unit tests: a mutant they kill is of no interest,
  2. runs the checks that own the mutated file against the scratch tree (VERIF_REPO) and records which of them report a VIOLATION.
A mutant that survives both is written out as a survivor: either it is equivalent / breaks no listed property, or it is a gap.
Results are appended to the jsonl file, one record per mutant; nothing is written to /repo, to the evidence or to the replays of /repo."""
import json
import os
import re
import shutil
import subprocess
import sys
import time

VERIF = os.path.dirname(os.path.dirname(os.path.abspath(__file__)))
SRC_REPO = os.environ.get("AUTOMUT_REPO", "/repo")
SCR = "/tmp/amut"
OWNERS = [
    (r"src/SM/(SourceMap|KickMap)\.cpp", ["C01", "C02", "C08", "C15", "C03"]),
    (r"src/SM/(RFKickMap|DriftMap)\.cpp", ["C03", "C01", "C08", "C15", "C19"]),
    (r"src/SM/DynamicRFKickMap\.cpp", ["C19", "C01", "C15", "C12"]),
    (r"src/SM/FokkerPlanckMap\.cpp", ["C04", "C01", "C08", "C15"]),
    (r"src/SM/(WakePotentialMap|WakeKickMap|WakeFunctionMap)\.cpp", ["C08", "C05", "C01"]),
    (r"src/SM/RotationMap\.cpp", ["C02"]),
    (r"inc/SM/Identity\.hpp", ["C01", "C08"]),
    (r"src/PS/PhaseSpace\.cpp|inc/PS/PhaseSpace\.hpp", ["C09", "C10", "C04"]),
    (r"src/PS/ElectricField\.cpp", ["C06", "C07", "C18", "C10"]),
    (r"src/PS/PhaseSpaceFactory\.cpp", ["C11", "C17", "C10"]),
    (r"inc/PS/Ruler\.hpp", ["C09", "C10", "C03"]),
    (r"src/Z/.*\.cpp", ["C16", "C10"]),
    (r"src/IO/HDF5File\.cpp", ["C10", "C11", "C14", "C19"]),
    (r"src/IO/ProgramOptions\.cpp", ["C13", "C20"]),
    (r"src/IO/Display\.cpp|inc/IO/Display\.hpp", ["C14"]),
    (r"src/main\.cpp", ["C10", "C11", "C14", "C03", "C04", "C05", "C19", "C12"]),
    (r"src/HelperFunctions\.cpp", ["C10", "C17"]),
]
DEFAULT_FILES = ["src/SM/SourceMap.cpp", "src/SM/KickMap.cpp", "src/SM/RFKickMap.cpp", "src/SM/DriftMap.cpp", "src/SM/DynamicRFKickMap.cpp", "src/SM/FokkerPlanckMap.cpp",
                 "src/SM/WakePotentialMap.cpp", "src/SM/WakeKickMap.cpp", "src/SM/RotationMap.cpp", "src/PS/PhaseSpace.cpp", "src/PS/ElectricField.cpp", "src/PS/PhaseSpaceFactory.cpp",
                 "src/Z/Impedance.cpp", "src/Z/ImpedanceFactory.cpp", "src/Z/FreeSpaceCSR.cpp", "src/Z/ResistiveWall.cpp", "src/Z/ParallelPlatesCSR.cpp", "src/Z/CollimatorImpedance.cpp",
                 "src/Z/ConstImpedance.cpp", "src/IO/HDF5File.cpp", "src/IO/ProgramOptions.cpp", "src/main.cpp", "inc/PS/Ruler.hpp", "inc/SM/Identity.hpp"]

RULES = [   # (name, regex, replacement(s))
    ("lt->le", r"(?<=[\w\)\]]) ?< ?(?=[\w\(_])(?![^\n]*>)", [" <= "]),
    ("le->lt", r"<=", ["<"]),
    ("gt->ge", r"(?<=[\w\)\]]) > (?=[\w\(])", [" >= "]),
    ("ge->gt", r">=", [">"]),
    ("eq->ne", r"==", ["!="]),
    ("plus->minus", r"(?<=[\w\)\]])\+(?=[\w\(])", ["-"]),
    ("minus->plus", r"(?<=[\w\)\]])-(?=[\w\(])(?!>)", ["+"]),
    ("mul->div", r"(?<=[\w\)\]])\*(?=[\w\(])", ["/"]),
    ("pm1", r"(?<=[\w\)\]])([+-])1\b(?!\.)", ["\\g<1>2", ""]),
    ("min<->max", r"std::min\b", ["std::max"]),
    ("max<->min", r"std::max\b", ["std::min"]),
    ("floor->ceil", r"std::floor\b", ["std::ceil"]),
    ("ceil->floor", r"std::ceil\b", ["std::floor"]),
    ("round->floor", r"std::l?round\b", ["std::floor"]),
    ("axis0->1", r"\[0\]", ["[1]"]),
    ("axis1->0", r"\[1\]", ["[0]"]),
    ("Axis(0)->(1)", r"(getAxis|getDelta|getScale|getMoment|variance|average|delta|scale)\(0\b", ["\\g<1>(1"]),
    ("Axis(1)->(0)", r"(getAxis|getDelta|getScale|getMoment|variance|average|delta|scale)\(1\b", ["\\g<1>(0"]),
    ("xsize<->ysize", r"_xsize\b", ["_ysize"]),
    ("ysize<->xsize", r"_ysize\b", ["_xsize"]),
    ("nx<->ny", r"PhaseSpace::nx\b", ["PhaseSpace::ny"]),
    ("half", r"/2\b(?!\.)", ["/3", ""]),
    ("and->or", r"&&", ["||"]),
    ("or->and", r"\|\|", ["&&"]),
    ("not", r"!(?=[\w\(_])(?!=)", [""]),
    ("true<->false", r"\btrue\b", ["false"]),
    ("drop-call", r"^(\s+)([\w:>\.\-\*]+(?:->|\.)\w+\([^;{}]*\);)\s*$", ["\\g<1>/* dropped */"]),
]


def sh(cmd, **kw):
    return subprocess.run(cmd, shell=isinstance(cmd, str), capture_output=True, text=True, **kw)


def compiled_lines(text):
    """indices of lines outside #if blocks that are compiled out in this build"""
    off_pat = re.compile(r"#\s*if.*(INOVESA_USE_OPENCL\s*==\s*1|INOVESA_USE_OPENGL\s*==\s*1|INOVESA_ENABLE_CLPROFILING\s*==\s*1|INOVESA_USE_CLFFT\s*==\s*1|INOVESA_USE_PNG\s*==\s*1|INOVESA_SYNC_CL\s*==\s*1)")
    ifdef_off = re.compile(r"#\s*ifdef\s+(INOVESA_USE_OPENCL|INOVESA_USE_OPENGL|INOVESA_VERIF|INOVESA_USE_CLFFT)\b")
    stack, keep = [], []
    incomment = False
    for i, ln in enumerate(text.split("\n")):
        s = ln.strip()
        if re.match(r"#\s*if", s):
            stack.append(bool(off_pat.search(s) or ifdef_off.search(s)))
        elif re.match(r"#\s*else", s) and stack:
            stack[-1] = (not stack[-1]) if True else stack[-1]
        elif re.match(r"#\s*endif", s) and stack:
            stack.pop()
        live = not any(stack)
        if "/*" in s and "*/" not in s:
            incomment = True
        code = live and not incomment and not s.startswith("//") and not s.startswith("*") and not s.startswith("#") and "printText" not in s and "std::cout" not in s and "std::cerr" not in s and "Display::" not in s
        if "*/" in s:
            incomment = False
        if code and s:
            keep.append(i)
    return keep


def mutants_of(path, text):
    lines = text.split("\n")
    out = []
    for i in compiled_lines(text):
        ln = lines[i]
        code = ln.split("//")[0]
        if '"' in code and ("(" not in code.split('"')[0]):
            continue
        for name, pat, reps in RULES:
            for m in re.finditer(pat, code, flags=re.M):
                if '"' in code[:m.start()] and code[:m.start()].count('"') % 2 == 1:
                    continue    # inside a string literal
                if name == "drop-call" and re.search(r"\.(reserve|shrink_to_fit)\(|saveTimings|flush\(", code):
                    continue    # performance only
                for rep in reps:
                    new = code[:m.start()] + m.expand(rep) + code[m.end():] + ln[len(code):]
                    if new != ln:
                        out.append(dict(file=path, line=i + 1, rule=name, old=ln.strip(), new=new.strip(), newline=new))
    return out


def owners(path):
    for pat, cs in OWNERS:
        if re.fullmatch(pat, path):
            return cs + ["C17"]      # memory safety (sanitizer build of the program) last: it owns every file
    return ["C17"]


def main():
    a = sys.argv[1:]
    def opt(k, d):
        return a[a.index(k) + 1] if k in a else d
    files = opt("--files", ",".join(DEFAULT_FILES)).split(",")
    mx, start, stride = int(opt("--max", "1000000")), int(opt("--start", "0")), int(opt("--stride", "1"))
    outp, tier = opt("--out", os.path.join(VERIF, "build", "automut.jsonl")), opt("--tier", "quick")
    os.makedirs(os.path.dirname(os.path.abspath(outp)), exist_ok=True)
    allm = []
    for f in files:
        p = os.path.join(SRC_REPO, f)
        if os.path.exists(p):
            allm += mutants_of(f, open(p).read())
    # deterministic spread over files and rules: take every stride-th mutant
    sel = allm[start::stride][:mx]
    only = opt("--only", "")      # file:line[:rule],... - re-run chosen mutants (e.g. the survivors of an earlier run against extended checks)
    if only:
        want = [tuple(x.split(":")) for x in only.split(",")]
        sel = [m for m in allm if any(m["file"] == w[0] and str(m["line"]) == w[1] and (len(w) < 3 or m["rule"] == w[2]) for w in want)]
    print("mutants generated: %d, selected: %d" % (len(allm), len(sel)), flush=True)
    shutil.rmtree(SCR, ignore_errors=True)
    os.makedirs(SCR)
    d = os.path.join(SCR, "repo")
    sh("git -C %s worktree prune; cp -r %s/src %s/inc %s/test %s/CMakeLists.txt %s/InovesaConfig.hpp.in %s/ 2>/dev/null || (mkdir -p %s && cp -r %s/src %s/inc %s/test %s/CMakeLists.txt %s/InovesaConfig.hpp.in %s/)" % (
        SRC_REPO, SRC_REPO, SRC_REPO, SRC_REPO, SRC_REPO, SRC_REPO, d, d, SRC_REPO, SRC_REPO, SRC_REPO, SRC_REPO, SRC_REPO, d))
    bw = os.path.join(VERIF, "tools", "agent_tools", "build_wt.sh")
    r = sh(["bash", bw, d])
    if r.returncode != 0:
        raise SystemExit("scratch tree does not build: " + r.stdout[-500:] + r.stderr[-500:])
    done = set()
    if os.path.exists(outp):
        for l in open(outp):
            try:
                j = json.loads(l)
                done.add((j["file"], j["line"], j["rule"], j["new"]))
            except Exception:
                pass
    for k, m in enumerate(sel):
        key = (m["file"], m["line"], m["rule"], m["new"])
        if key in done:
            continue
        p = os.path.join(d, m["file"])
        orig = open(p).read()
        ls = orig.split("\n")
        ls[m["line"] - 1] = m["newline"]
        open(p, "w").write("\n".join(ls))
        rec = dict(file=m["file"], line=m["line"], rule=m["rule"], old=m["old"], new=m["new"], t=time.strftime("%H:%M:%S"))
        try:
            b = sh(["bash", bw, d])
            if b.returncode != 0:
                rec["status"] = "does-not-compile"
            else:
                t = sh("cd %s/test && timeout 120 ../_b/inovesa-test 2>&1 | tail -3" % d)
                if "No errors detected" not in t.stdout:
                    rec["status"] = "killed-by-unit-tests"
                else:
                    det, ran = [], []
                    for c in owners(m["file"]):
                        env = dict(os.environ, VERIF_REPO=d)
                        try:
                            rr = subprocess.run([sys.executable, os.path.join(VERIF, "tools", "vcheck.py"), c, tier], cwd=VERIF, env=env, capture_output=True, text=True, timeout=1500)
                            rc = rr.returncode
                            nv = len(re.findall(r"^VIOLATION property=", rr.stdout, re.M))
                            keys = re.findall(r"^  key=(\S+)", rr.stderr, re.M)[:3]
                        except subprocess.TimeoutExpired:
                            rc, nv, keys = -999, 0, ["TIMEOUT"]
                        ran.append(c)
                        if (rc == 1 and nv > 0) or rc not in (0, 1):
                            det.append(dict(check=c, rc=rc, keys=keys))
                            break       # one detection is enough
                    rec["status"] = "detected" if det else "SURVIVED"
                    rec["checks_run"], rec["detected_by"] = ran, det
        finally:
            open(p, "w").write(orig)
        with open(outp, "a") as f:
            f.write(json.dumps(rec) + "\n")
        print("[%d/%d] %s:%d %s  %s  | %s -> %s" % (k + 1, len(sel), m["file"], m["line"], m["rule"], rec["status"] + ((" by " + rec["detected_by"][0]["check"]) if rec.get("detected_by") else ""), m["old"][:70], m["new"][:70]), flush=True)
    shutil.rmtree(SCR, ignore_errors=True)
    # remove the alternative build tree of the scratch copy
    import hashlib
    alt = os.path.join(VERIF, "build", "alt-" + hashlib.sha1(os.path.realpath(d).encode()).hexdigest()[:10])
    shutil.rmtree(alt, ignore_errors=True)


if __name__ == "__main__":
    main()
