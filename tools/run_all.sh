#!/bin/bash
# usage: run_all.sh quick|thorough [ids...]   - runs the registered checks against /repo, prints one summary line each
TIER=${1:-quick}; shift
cd $(dirname $(dirname $(realpath $0)))
IDS=${@:-$(python3 -c "import json;print(' '.join(c['property_id'] for c in json.load(open('MANIFEST.json'))['checks']))")}
fail=0
for p in $IDS; do
  s=$(date +%s); out=$(python3 tools/vcheck.py $p $TIER 2>/dev/null); rc=$?; e=$(date +%s)
  echo "$(echo "$out" | tail -1)  [rc=$rc, $((e-s))s, known=$(echo "$out" | grep -c '^KNOWN-FINDING')]"
  [ $rc -ne 0 ] && { fail=1; echo "$out" | grep '^VIOLATION' | head -5; }
done
exit $fail
