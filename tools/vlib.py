"""Shared machinery of the checks: running sharded harnesses, known-findings matching, replay files,
evidence files, VIOLATION / KNOWN-FINDING lines and exit codes."""
import array
import fnmatch
import json
import os
import re
import subprocess
import sys
import time
import concurrent.futures as cf

VERIF = os.path.dirname(os.path.dirname(os.path.abspath(__file__)))
sys.path.insert(0, os.path.join(VERIF, "tools"))
import build  # noqa: E402

BUILD = os.path.join(VERIF, "build")
WORK = os.path.join(BUILD, "work")
XDG = os.path.join(BUILD, "xdg")
NJOBS = int(os.environ.get("VERIF_JOBS", "16"))
SEED = int(os.environ.get("VERIF_SEED", "0") or 0)


def env():
    e = dict(os.environ)
    e["XDG_DATA_HOME"] = XDG          # FFTW wisdom lives inside /verif/build, never in $HOME or /tmp
    e["HOME"] = os.path.join(BUILD, "home")
    e["ASAN_OPTIONS"] = "detect_leaks=0:abort_on_error=0:exitcode=77"
    e["UBSAN_OPTIONS"] = "print_stacktrace=1:halt_on_error=1:exitcode=78"
    os.makedirs(os.path.join(XDG, "inovesa", "fftwisdom"), exist_ok=True)
    os.makedirs(e["HOME"], exist_ok=True)
    return e


def log(*a):
    print(*a, file=sys.stderr, flush=True)


def wide(tier):
    """the lattices that used to be reserved for the thorough tier: they turned out cheap enough (seconds) to run on every change"""
    return True


def deep(tier):
    """extensions that only the thorough tier runs"""
    return tier == "thorough"


def wisdom_state():
    """names, sizes and modification times of the FFTW wisdom files.  Inovesa plans with FFTW_PATIENT (timing dependent) and caches the plan
    per transform length in one file; a file written *while* runs are in flight means that runs of that length may have computed with
    different plans (different rounding).  Every parallel phase therefore compares this before/after and repeats itself until it is stable,
    so that whatever is compared bitwise was computed from the same wisdom - also on a cold cache."""
    d = os.path.join(XDG, "inovesa", "fftwisdom")
    out = []
    try:
        for n in sorted(os.listdir(d)):
            st = os.stat(os.path.join(d, n))
            out.append((n, st.st_size, st.st_mtime_ns))
    except OSError:
        pass
    return tuple(out)


WISDOM_REPEATS = []   # (what, pass number, files that changed) - copied into the evidence


class Result:
    """what a check run covered and found"""

    def __init__(self, prop, tier, level):
        self.prop, self.tier, self.level = prop, tier, level
        self.evaluations = 0
        self.distinct = set()
        self.distinct_count_extra = 0
        self.rule = ""
        self.samples = []
        self.violations = {}     # key -> dict(key, case, detail, count, replay)
        self.coverage = {}       # extra keys
        self.assumptions = []
        self.exhaustive = True
        self.not_completed = []
        self.bounds_done = []
        self.states = None
        self.transitions = None
        self.traces = None
        self.t0 = time.time()

    def violate(self, key, case, detail, replay=None, count=1):
        v = self.violations.get(key)
        if v is None:
            self.violations[key] = dict(key=key, case=case, detail=detail, count=count, replay=replay)
        else:
            v["count"] += count

    def eval(self, case, h=None, trivial=False):
        self.evaluations += 1
        if not trivial:
            self.distinct.add(h if h is not None else hash(case))
        if len(self.samples) < 3 or (self.evaluations % 500 == 0 and len(self.samples) < 30):
            self.samples.append(case)

    def merge_harness(self, docs, hashes, extra=None):
        for d in docs:
            self.evaluations += d["evaluations"]
            if not d["exhaustive"]:
                self.exhaustive = False
                if d.get("not_completed"):
                    self.not_completed.append(d["not_completed"])
            if d.get("rule") and d["rule"] not in self.rule:
                self.rule = (self.rule + " | " if self.rule else "") + d["rule"]
            for s in d["samples"][:2] + d["samples"][-1:]:
                if len(self.samples) < 60 and s not in self.samples:
                    self.samples.append(s)
            for b in d.get("bounds_done", []):
                if b not in self.bounds_done:
                    self.bounds_done.append(b)
            for k, v in d.get("numbers", {}).items():
                if k == "sum_distinct_extra":
                    self.distinct_count_extra += int(v)
                    continue
                if k.startswith("sum_") or k in ("states", "transitions", "traces"):
                    self.coverage[k] = self.coverage.get(k, 0) + v
                else:
                    self.coverage[k] = max(self.coverage.get(k, v), v)
            for k, v in d.get("texts", {}).items():
                self.coverage[k] = v
            for v in d["violations"]:
                self.violate(v["key"], v["case"], v["detail"], replay=dict(harness=d["harness"], case=v["case"], extra=extra or [],
                                                                              shard="%d/%d" % (d.get("shard", 0), d.get("nshards", 1))),
                             count=v["count"])
        self.distinct |= hashes


def run_harness(res, name, tier, extra=None, kind="plain", nshards=None, deadline=None, timeout=None, warm=False, blocks=(1, 8)):
    """build harness `name`, run it in `nshards` processes, merge the shard reports into res.
    The cases of a shard run in ONE process, one after the other: every case is thereby also checked in a process that has built and used other
    objects before (state carried from object to object - function-local statics, caches - shows up as a case that fails in company and passes
    alone).  The enumeration is dealt to the shards twice: round robin (far-apart cases share a process) and in blocks of 8 consecutive cases
    (neighbouring cases, which differ in the fastest-varying parameters only, share a process)."""
    docs = []
    for bi, b in enumerate(blocks):
        docs += _run_harness_pass(res, name, tier, (list(extra or []) + (["--block", str(b)] if b != 1 else [])), kind, nshards, deadline, timeout, warm and bi == 0)
    return docs


def _run_harness_pass(res, name, tier, extra=None, kind="plain", nshards=None, deadline=None, timeout=None, warm=False):
    exe = build.build_harness(name, kind)
    nshards = nshards or NJOBS
    wd = os.path.join(WORK, name + "-" + kind)
    os.makedirs(wd, exist_ok=True)
    e = env()
    if warm:   # create the FFTW wisdom of every transform length once, sequentially, before anything is compared
        r = subprocess.run([exe, "--tier", tier, "--warm"] + (extra or []), capture_output=True, text=True, env=e, cwd=wd, timeout=timeout)
        if r.returncode != 0:
            res.violate("%s/harness=%s/warm-up-crash/rc=%d" % (res.prop, name, r.returncode), "--warm tier=%s" % tier,
                        (r.stderr or "").strip().splitlines()[-1] if (r.stderr or "").strip() else "no output",
                        replay=dict(harness=name, kind=kind, warm=True, tier=tier, stderr=(r.stderr or "")[-2000:]))
            return []

    def one(i):
        out = os.path.join(wd, "shard%d.json" % i)
        for p in (out, out + ".hashes"):
            if os.path.exists(p):
                os.remove(p)
        cmd = [exe, "--tier", tier, "--shard", "%d/%d" % (i, nshards), "--out", out]
        if deadline:
            cmd += ["--deadline", str(deadline)]
        cmd += extra or []
        r = subprocess.run(cmd, capture_output=True, text=True, env=e, cwd=wd, timeout=timeout)
        return i, r, out

    docs, hashes, crashed = [], set(), []
    for attempt in range(4):
        w0 = wisdom_state()
        with cf.ThreadPoolExecutor(nshards) as ex:
            shard_results = list(ex.map(one, range(nshards)))
        w1 = wisdom_state()
        if w1 == w0:
            break
        changed = sorted(set(x[0] for x in set(w1) ^ set(w0)))
        WISDOM_REPEATS.append(("harness " + name, attempt, changed[:12]))
        log("[wisdom] %s: %d wisdom file(s) written during the sharded phase (%s) - repeating it" % (name, len(changed), ", ".join(changed[:6])))
    else:
        res.violate("%s/harness=%s/fftw-wisdom-not-stable" % (res.prop, name), "tier=%s" % tier, "wisdom files still change after 4 passes", replay=dict(harness=name, kind=kind, tier=tier))
    if True:
        for i, r, out in shard_results:
            if r.returncode != 0 or not os.path.exists(out):
                crashed.append((i, r.returncode, (r.stderr or "")[-2000:]))
                continue
            with open(out) as f:
                docs.append(json.load(f))
            hp = out + ".hashes"
            if os.path.exists(hp):
                a = array.array("Q")
                with open(hp, "rb") as f:
                    a.frombytes(f.read())
                hashes.update(a)
    res.merge_harness(docs, hashes, extra)
    for i, rc, err in crashed:
        # a crashing harness is itself a finding about the code under test (or the harness): never silent
        res.violate("%s/harness=%s/shard-crash/rc=%d" % (res.prop, name, rc), "shard=%d/%d tier=%s" % (i, nshards, tier),
                    err.strip().splitlines()[-1] if err.strip() else "no output",
                    replay=dict(harness=name, kind=kind, shard="%d/%d" % (i, nshards), tier=tier, stderr=err))
    return docs


def replay_harness(name, case, kind="plain", tier="quick", extra=None):
    exe = build.build_harness(name, kind)
    wd = os.path.join(WORK, name + "-" + kind)
    os.makedirs(wd, exist_ok=True)
    out = os.path.join(wd, "replay.json")
    r = subprocess.run([exe, "--tier", tier, "--case", case, "--out", out] + list(extra or []), capture_output=True, text=True, env=env(), cwd=wd)
    sys.stderr.write(r.stderr[-4000:])
    if r.returncode != 0 or not os.path.exists(out):
        return None
    with open(out) as f:
        return json.load(f)


def replay_harness_shard(name, shard, kind="plain", tier="quick", extra=None):
    """re-run one whole shard (the cases of a shard run in ONE process, in enumeration order): the replay of a violation that needs the history of
    the process - state that survives from one object to the next (function-local statics, caches, global tables)"""
    exe = build.build_harness(name, kind)
    wd = os.path.join(WORK, name + "-" + kind)
    os.makedirs(wd, exist_ok=True)
    out = os.path.join(wd, "replay_shard.json")
    r = subprocess.run([exe, "--tier", tier, "--shard", shard, "--out", out] + list(extra or []), capture_output=True, text=True, env=env(), cwd=wd)
    if r.returncode != 0 or not os.path.exists(out):
        return None
    with open(out) as f:
        return json.load(f)


# ------------------------------------------------------------------------------------------------ known findings
def load_known():
    known, fixed = [], []
    p = os.path.join(VERIF, "known_findings.txt")
    if os.path.exists(p):
        for line in open(p):
            line = line.strip()
            if not line or line.startswith("#"):
                continue
            m = re.match(r"known:\s+property=(\S+)\s+key=(\S+)\s*(.*)", line)
            if m:
                known.append((m.group(1), m.group(2), m.group(3)))
                continue
            m = re.match(r"fixed:\s+property=(\S+)\s+(\S+)\s*(.*)", line)
            if m:
                fixed.append((m.group(1), m.group(2), m.group(3)))
    return known, fixed


def match_known(known, prop, key):
    for p, pat, what in known:
        if p == prop and (pat == key or fnmatch.fnmatchcase(key, pat)):
            return what or pat
    return None


def safe(s):
    return re.sub(r"[^A-Za-z0-9_.=,+-]+", "_", s)[:150]


def finish(res, confirm=None):
    """write evidence + replays, print the protocol lines, return the exit code.
    confirm(violation) -> bool re-runs one violating case in isolation (replay before report)."""
    known, _ = load_known()
    new, hits, unrepro = [], [], []
    for key in sorted(res.violations):
        v = res.violations[key]
        what = match_known(known, res.prop, key)
        if what is not None:
            hits.append((key, what, v))
            continue
        if confirm is not None:
            try:
                ok = confirm(v)
            except Exception as ex:  # a broken confirmation must not hide the violation
                log("confirm failed:", ex)
                ok = True
            if not ok:
                unrepro.append(v)
                continue
        new.append(v)
    # runs against another tree (VERIF_REPO: mutants, scratch copies) must not overwrite the evidence of /repo
    alt = os.path.realpath(build.REPO) != "/repo"
    rdir = os.path.join(BUILD, "replays-alt", res.prop) if alt else os.path.join(VERIF, "replays", res.prop)
    lines = []
    for key, what, v in hits:
        lines.append("KNOWN-FINDING: property=%s %s [key=%s, %d case(s), e.g. %s]" % (res.prop, what, key, v["count"], v["case"]))
    for v in new:
        os.makedirs(rdir, exist_ok=True)
        path = os.path.join(rdir, safe(v["key"]) + ".json")
        with open(path, "w") as f:
            json.dump(dict(property=res.prop, key=v["key"], case=v["case"], detail=v["detail"], count=v["count"],
                           replay=v.get("replay"), tier=res.tier,
                           how="python3 tools/vcheck.py %s --replay %s" % (res.prop, path)), f, indent=1)
        lines.append("VIOLATION property=%s replay=%s" % (res.prop, path))
        log("  key=%s case=%s :: %s" % (v["key"], v["case"], v["detail"]))
    for v in unrepro:
        log("UNREPRODUCIBLE (not reported): key=%s case=%s :: %s" % (v["key"], v["case"], v["detail"]))
    cov = dict(res.coverage)
    nd = len(res.distinct) + res.distinct_count_extra
    cov.update(evaluations=int(res.evaluations), distinct_nontrivial=int(nd), rule=res.rule,
               samples=res.samples[:60] or ["(none)"], exhaustive=bool(res.exhaustive),
               bounds_completed=res.bounds_done, not_completed=res.not_completed,
               known_findings_hit=[k for k, _, _ in hits], unreproducible=len(unrepro))
    if WISDOM_REPEATS:
        cov["parallel_phases_repeated_until_the_fftw_wisdom_was_stable"] = [list(x) for x in WISDOM_REPEATS]
    if res.states is not None:
        cov.update(states=int(res.states), transitions=int(res.transitions),
                   traces_validated_against_impl=int(res.traces or 0))
    ev = dict(property_id=res.prop, tier=res.tier, seed=SEED, level=res.level, coverage=cov,
              assumptions=res.assumptions, wall_s=round(time.time() - res.t0, 2), violations=len(new))
    evdir = os.path.join(BUILD, "evidence-alt") if alt else os.path.join(VERIF, "evidence")
    os.makedirs(evdir, exist_ok=True)
    with open(os.path.join(evdir, res.prop + ".json"), "w") as f:
        json.dump(ev, f, indent=1, default=str)
    for ln in lines:
        print(ln, flush=True)
    print("%s %s: evaluations=%d distinct_nontrivial=%d exhaustive=%s known=%d new=%d wall=%.1fs" % (
        res.prop, res.tier, res.evaluations, nd, res.exhaustive, len(hits), len(new), time.time() - res.t0), flush=True)
    return 1 if new else 0
