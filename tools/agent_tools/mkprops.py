#!/usr/bin/env python3
"""writes /root/agent_tools/props/<id>.md : the property text plus the list of earlier seeded changes the next agent has to stay away from"""
import importlib.util, json, os
V = os.path.dirname(os.path.dirname(os.path.dirname(os.path.abspath(__file__))))
spec = importlib.util.spec_from_file_location('sa', os.path.join(V, 'tools', 'seed_all.py')); sa = importlib.util.module_from_spec(spec); spec.loader.exec_module(sa)
os.makedirs('/root/agent_tools/props', exist_ok=True)
for l in open(os.path.join(V, 'properties.jsonl')):
    if not l.strip():
        continue
    p = json.loads(l); pid = p['id']
    earlier = [v[1] for k, v in sa.SEEDS.items() if v[0] == pid and v[1]]
    with open('/root/agent_tools/props/%s.md' % pid, 'w') as f:
        f.write("# Property %s - %s\n\n" % (pid, p['title']))
        f.write("**Statement.** %s\n\n" % p['statement'])
        f.write("**Quantified over.** %s\n\n" % p['quantifier']['text'])
        f.write("**Why the existing unit tests cannot settle it.** %s\n\n" % p['why_tests_cant'])
        f.write("**Code it is anchored in.** %s\n\n" % json.dumps(p['anchors']))
        f.write("## Changes that were already made by others for this property - stay away from them\n\nYour change must be a *different kind of slip, in a different place or triggered by a different circumstance* than every one of these:\n\n")
        for n in earlier:
            f.write("* %s\n" % n)
