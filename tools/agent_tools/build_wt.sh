#!/bin/bash
# usage: build_wt.sh <worktree>     (FORCE=1 rebuilds everything)
# Builds a git worktree of Inovesa without cmake into <worktree>/_b :
#   _b/libino.a (everything but main.cpp), _b/inovesa, _b/inovesa-test (the repository's own unit tests),
#   _b/InovesaConfig.hpp.  Incremental: a TU is recompiled when it or any header is newer than its object.
# Run the unit tests with:  (cd <worktree>/test && ../_b/inovesa-test)
set -e
WT=$(realpath "$1"); B=$WT/_b; mkdir -p $B/obj $B/tobj
DEFS=(-DINOVESA_ENABLE_INTERRUPT=1 -DINOVESA_USE_HDF5=1 -DINOVESA_USE_OPENCL=0 -DINOVESA_USE_OPENGL=0 -DINOVESA_USE_PNG=0 '-DGIT_BRANCH="main"' '-DGIT_COMMIT="wt"')
INC=(-I$B -I$WT/inc -I/usr/include/hdf5/serial)
LIBS=(-lboost_filesystem -lboost_program_options -lboost_system -lfftw3f -lfftw3 -L/usr/lib/x86_64-linux-gnu/hdf5/serial -lhdf5_cpp -lhdf5 -Wl,-rpath,/usr/lib/x86_64-linux-gnu/hdf5/serial -lpthread)
# config header
maj=$(grep -oP 'set\s*\(INOVESA_VERSION_MAJOR\s+\K-?\d+' $WT/CMakeLists.txt || echo 0)
min=$(grep -oP 'set\s*\(INOVESA_VERSION_MINOR\s+\K-?\d+' $WT/CMakeLists.txt || echo 0)
fix=$(grep -oP 'set\s*\(INOVESA_VERSION_FIX\s+\K-?\d+' $WT/CMakeLists.txt || echo 0)
sed -e "s/@INOVESA_VERSION_MAJOR@/$maj/;s/@INOVESA_VERSION_MINOR@/$min/;s/@INOVESA_VERSION_FIX@/$fix/" $WT/InovesaConfig.hpp.in > $B/cfg.tmp
cmp -s $B/cfg.tmp $B/InovesaConfig.hpp 2>/dev/null || cp $B/cfg.tmp $B/InovesaConfig.hpp
newest_h=$(find $WT/inc $B/InovesaConfig.hpp -name '*.hpp' -printf '%T@\n' | sort -n | tail -1)
need() { # src obj
  [ -n "$FORCE" ] && return 0
  [ ! -f "$2" ] && return 0
  local ot=$(stat -c %Y.%N "$2" 2>/dev/null | cut -c1-20); local st=$(stat -c %Y "$1")
  [ "$st" -ge "$(stat -c %Y "$2")" ] && return 0
  awk -v a="$newest_h" -v b="$(stat -c %Y "$2")" 'BEGIN{exit !(a>=b)}' && return 0
  return 1
}
pids=()
cd $WT
for s in $(ls src/*.cpp src/*/*.cpp); do
  o=$B/obj/$(echo $s | tr '/' '_').o
  if need $s $o; then ( g++ -std=c++14 -fext-numeric-literals -O2 -w "${DEFS[@]}" "${INC[@]}" -c $s -o $o || { rm -f $o; exit 1; } ) & pids+=($!); fi
done
for s in $(ls test/*.cpp test/*/*.cpp 2>/dev/null); do
  o=$B/tobj/$(echo $s | tr '/' '_').o
  if need $s $o; then ( g++ -std=c++14 -fext-numeric-literals -O2 -w "${DEFS[@]}" -DBOOST_TEST_DYN_LINK "${INC[@]}" -I$WT/test -c $s -o $o || { rm -f $o; exit 1; } ) & pids+=($!); fi
done
rc=0; for p in "${pids[@]}"; do wait $p || rc=1; done
[ $rc -ne 0 ] && { echo "COMPILE FAILED"; exit 1; }
rm -f $B/libino.a; ar rcs $B/libino.a $(ls $B/obj/*.o | grep -v 'src_main.cpp.o')
g++ $B/obj/src_main.cpp.o $B/libino.a "${LIBS[@]}" -o $B/inovesa
g++ $B/tobj/*.o $B/libino.a -lboost_unit_test_framework "${LIBS[@]}" -o $B/inovesa-test
echo "built $B/inovesa $B/inovesa-test $B/libino.a"
