#!/bin/bash
# usage: seed_confirm.sh <seed-id> <worktree>  - confirm a sub-agent's seeded change myself, then store it under seeded/<seed-id>/
#   with the change: unit tests pass, demonstration fails;  without it: demonstration passes.
set -u
ID=$1; WT=$(realpath $2); V=$(dirname $(dirname $(realpath $0)))
cd $WT || exit 2
git diff --quiet -- src inc && { echo "no change applied in $WT"; exit 2; }
git diff -- src inc > /tmp/seed_$ID.diff
/root/agent_tools/build_wt.sh $WT >/dev/null 2>&1 || { echo "BUILD FAILED with change"; exit 1; }
t=$(cd $WT/test && ../_b/inovesa-test 2>&1 | tail -3 | tr '\n' ' ')
echo "$t" | grep -q "No errors detected" && T1=pass || T1=FAIL
( cd $WT/_seed && XDG_DATA_HOME=$WT/_xdg bash ./run.sh > /tmp/seed_$ID.with.log 2>&1 ); R1=$?
git apply -R /tmp/seed_$ID.diff
FORCE=1 /root/agent_tools/build_wt.sh $WT >/dev/null 2>&1
( cd $WT/_seed && XDG_DATA_HOME=$WT/_xdg bash ./run.sh > /tmp/seed_$ID.without.log 2>&1 ); R0=$?
git apply /tmp/seed_$ID.diff
echo "seed $ID: unit tests with change: $T1 ; demo with change rc=$R1 (want !=0) ; demo without change rc=$R0 (want 0)"
if [[ $T1 == pass && $R1 -ne 0 && $R0 -eq 0 ]]; then
  mkdir -p $V/seeded/$ID; cp /tmp/seed_$ID.diff $V/seeded/$ID/patch.diff
  rsync -a --exclude '*.o' --exclude demo --exclude '*.h5' --exclude '*.log' --exclude '_xdg' --max-size=200k $WT/_seed/ $V/seeded/$ID/demo/
  tail -5 /tmp/seed_$ID.with.log > $V/seeded/$ID/demo_with_change.tail.txt; tail -3 /tmp/seed_$ID.without.log > $V/seeded/$ID/demo_without_change.tail.txt
  echo CONFIRMED
else echo NOT-CONFIRMED; fi
