#!/usr/bin/env python3
"""Regenerates MANIFEST.json from the table below (a property is claimed iff checks/<id>.py exists)."""
import json
import os

VERIF = os.path.dirname(os.path.dirname(os.path.abspath(__file__)))

# id: (level, technique, text, note, design_ref, engine)
P = {
 "C01": ("exploration", "bounded exhaustive enumeration: all 2^30 interpolation offsets; unit-impulse column sums of every real map over a displacement alphabet",
         "Charge conservation for all data is equivalent to unit column sums of the step's matrix; the matrix of every real map class is obtained from unit impulses for every enumerated (size, order, bunch count, per-row displacement) and the interpolation weights are enumerated completely (all 1 065 353 216 floats in [0,1) x 4 orders).",
         "Linearity of the maps (cross-checked: negated and power-of-two-scaled data give the negated / scaled image bit for bit); displacements within the range [-n/2, n/2) the offset table encodes; OpenCL paths compiled out.", "6/C01", "A"),
 "C02": ("exploration", "complete enumeration of the 2^30 fractional offsets; every whole-cell shift that fits; monomial basis on a dyadic offset lattice",
         "Weight-level claims are decided completely; whole-cell shifts are compared bit for bit for every shift that fits the enumerated grids; polynomial reproduction on the monomial basis (a basis of the polynomials of degree < n).",
         "Grid sizes up to 33; offsets of the polynomial part from a dyadic lattice of 256 fractions plus the worst cases found by the weight enumeration; whole-shift data includes negative, 1e-30, 1e30 and subnormal values.", "6/C02", "A"),
 "C03": ("exploration", "bounded exhaustive enumeration of configurations x every step of a period, invariant checked at every state of every trajectory",
         "Centroid trajectories of the real RF-kick/drift pair (API) and of the real binary for a lattice of step counts, grid sizes, shifts, orders and starts; the exact rotation within the first-order splitting bound is checked after every step.",
         "Sense of rotation pinned to the code's convention; charge kept away from the border by construction; sinusoidal model: small amplitudes and short blobs, RF voltage down to 3.3 times the radiation loss per turn.", "6/C03", "A+B"),
 "C04": ("exploration", "bounded exhaustive enumeration of configurations, invariants (monotonicity, limit) checked at every recorded step",
         "Trajectories of the real Fokker-Planck + rotation maps over a configuration lattice with horizon 8 damping times; limit, flatness and monotonicity invariants.",
         "Equilibrium statements are checked on finite horizons only.", "6/C04", "A+B"),
 "C05": ("exploration", "bounded exhaustive enumeration of configurations of the real binary, Haissinski residual on the stored records",
         "The real binary is run to stationarity for every configuration of the lattice; the residual of the Haissinski equation is evaluated from the file's own bunch profile and wake potential.",
         "Finite horizon; impedances below threshold; D >= 0.05 for a case to count as non-trivial.", "6/C05", "B"),
 "C06": ("exploration", "basis-complete enumeration: impedance basis x profile basis x transform lengths x fillings against a double-precision direct DFT",
         "The wake is bilinear in (impedance, profile): enumerating unit impedances (real and imaginary) at every frequency bin and unit impulses in every cell of every bunch decides it for all inputs of each enumerated size.",
         "Transform lengths <= 74; up to 3 buckets; rounding tolerance 2e-5 relative.", "6/C06", "A"),
 "C07": ("exploration", "basis-complete enumeration of the quadratic form (e_i, e_i+e_j) x real-impedance basis, Parseval identity",
         "CSR power is a quadratic form in the profile and linear in Re Z; its values on e_i and e_i+e_j for a basis of Re Z determine it for all profiles and passive impedances of each enumerated size.",
         "Transform lengths <= 64.", "6/C07", "A"),
 "C08": ("exploration", "bounded exhaustive differential enumeration: each bunch's slice of a multi-bunch application == the single-bunch application, bit for bit",
         "Every map class is applied to nb<=3 bunches with per-bunch data and fields; every slice must equal, bit for bit, the single-bunch run on the same data and field (the arithmetic is identical).",
         "nb <= 3, n <= 12.", "6/C08", "A+B"),
 "C09": ("exploration", "bounded exhaustive enumeration of fillings x impulse/pair/Gaussian data against double-precision reference moments",
         "Normalisation and moments of the real PhaseSpace for every filling composition (incl. empty buckets), every impulse and impulse pair, and a Gaussian lattice in four magnitudes; plus an explicit search over all call histories up to depth 5 (6) of {write, both projections, integrate, normalize, shorthand, both variances, copy, assign, swap} against a freshness model of the caches; the constructor's own Gaussian for six zoom factors; process level: populations in every record written at a renormalisation step of the real binary (filling patterns x starts x RenormalizeCharge).",
         "Equal extent of both axes (the only grids main() can build).", "6/C09", "A+B"),
 "C10": ("model_checking", "TLC explicit-state model of main()'s output protocol, every terminal behaviour replayed on the real binary; record contents recomputed from the file",
         "Record structure: all behaviours of the TLA+ model of the main loop for a configuration lattice, each replayed on the hooked binary with label-trace equality. Record contents: recomputation from the stored datasets at every record.",
         "Model bound to code by two-way trace conformance; configuration lattice bounded.", "6/C10", "C+B"),
 "C11": ("fault_enumeration", "every split point of a bounded run (crash-point enumeration) x configurations, bit-exact / drift-bounded comparison",
         "Every split point T1 of a 16-step (thorough: 32-step) run is executed as two legs of the real binary and compared with the uninterrupted run (bitwise for RenormalizeCharge<0, within rounding for 0, rescaled by the recorded charge for >0), also written over its own start file; unusable start files, records outside the file, older layouts and other storage types are enumerated as faults.",
         "Horizon 16 steps; same FFT wisdom.", "6/C11", "B"),
 "C12": ("exploration", "bounded exhaustive enumeration of observation settings, bitwise comparison of all common records",
         "All combinations of output cadence, save cadence, tracking, verbosity and file name for a base run; final phase space and all common records must be bitwise identical.",
         "Deterministic RF; same FFT wisdom.", "6/C12", "B"),
 "C13": ("exploration", "bounded exhaustive enumeration of option assignments x sources (deviation bound 2, thorough 3), parse-save-parse round trip on the real ProgramOptions; rerun of the real binary from its saved .cfg",
         "Every option singly and every pair (thorough: every triple), on every source, is parsed, saved and re-parsed by the real class; every getter must agree. Process level: the real binary is rerun from the .cfg it saved (and once more from its own .cfg under the same output name with an override); all datasets and attributes must agree bitwise.",
         "Two values per option.", "6/C13", "A+B"),
 "C14": ("model_checking", "deviation-bounded scheduler over hooked interrupt points + TLC model of main(); every model behaviour replayed on the real binary",
         "One signal at every hook hit of every configuration (and pairs for a reduced set): model invariants by TLC, every terminal behaviour replayed on the hooked binary, label traces must be model paths.",
         "Signal delivery inside a library call is equivalent to delivery after it (the handler only sets a flag read at two places, grep-checked).", "6/C14", "C"),
 "C15": ("exploration", "bounded exhaustive enumeration of half-cell particle lattice x displacement alphabet x tracking models x seeds",
         "applyTo vs apply centroid for every lattice position and offset pair; all four FP tracking models over many steps stay inside the grid; ensemble moments for the stochastic model.",
         "Fixed PRNG seeds 0..15.", "6/C15", "A"),
 "C16": ("exploration", "bounded exhaustive enumeration of sample counts x parameter lattices x factory switches",
         "Shape, passivity, absolute scale against the documented closed forms, factory additivity and causality (through the real wake computation) over the parameter lattice, sample counts from 0; every ordered pair of argument sets per model class built back to back against fresh-process references (construction histories).",
         "Parameter lattices of 3 points per axis.", "6/C16", "A"),
 "C17": ("fault_enumeration", "deviation-bounded enumeration (1 then 2 parameter changes) of configurations and token-grammar input files under ASan/UBSan",
         "Every 1- and 2-parameter deviation from a valid run and every input file of <= 3 lines over the token grammar is run on the sanitizer build; the base run, every single deviation and every kind of input file (<= 2 lines) also under valgrind.",
         "Sanitizers as oracle; uninitialised reads only via the valgrind subset.", "6/C17", "B"),
 "C18": ("model_checking", "explicit-state BFS over operation histories of the real ElectricField with canonical state hashing",
         "Breadth-first search over {set profile, wake, pad, CSR} histories on the real object until no new canonical state appears; invariant: outputs equal those of a fresh object, bit for bit.",
         "Profile alphabet of 3 per bunch.", "6/C18", "A"),
 "C19": ("model_checking", "explicit-state search over apply/flush sequences of the real DynamicRFKickMap; zero-amplitude lattice differential",
         "All apply/flush sequences up to the bound on the real object; records must be the applied entries; zero amplitude == static map bit for bit.",
         "Queue length 6..8.", "6/C19", "A"),
 "C20": ("exploration", "bounded exhaustive enumeration of option placements against a three-level reference lookup",
         "Every option x {absent, cli, cfg, both}, alias pairs x 16 placements, malformed/unknown tokens, on the real parser and the real binary's exit status.",
         "Two values per option; type-specific alphabet of 15 malformed tokens on the command line, in the file, and in the file under a proper command-line value.", "6/C20", "A+B"),
}


def main():
    checks, na = [], []
    for pid in sorted(P):
        level, tech, text, note, ref, eng = P[pid]
        if os.path.exists(os.path.join(VERIF, "checks", pid + ".py")):
            checks.append(dict(property_id=pid,
                               quick_cmd="python3 tools/vcheck.py %s quick" % pid,
                               thorough_cmd="python3 tools/vcheck.py %s thorough" % pid,
                               evidence_file="/verif/evidence/%s.json" % pid,
                               replay_cmd_template="python3 tools/vcheck.py %s --replay {path}" % pid,
                               engine=eng,
                               level_claimed=dict(category=level, text=text, design_ref="DESIGN.md section " + ref),
                               level_note=note, technique=tech))
        else:
            na.append(dict(property_id=pid, reason="decidable by bounded exhaustive exploration (DESIGN.md section %s) but the check is not built yet; not claimed until it is" % ref))
    hooks_commits = []
    hp = os.path.join(VERIF, "hooks_commits.txt")
    if os.path.exists(hp):
        hooks_commits = [l.split()[0] for l in open(hp) if l.strip() and not l.startswith("#")]
    m = dict(version=1,
             setup_cmd="python3 tools/build.py all",
             hooks=dict(guard="INOVESA_VERIF",
                        enable="tools/build.py bin-hook compiles src/main.cpp with -DINOVESA_VERIF=1 and links it against the unhooked library objects",
                        baseline_off_cmd="cmake --build /repo/_build && ctest --test-dir /repo/_build -j8 --timeout 900",
                        source_commits=hooks_commits, add_only=True),
             engines=[dict(name="A", path="harness/", serves_properties=[p for p in sorted(P) if "A" in P[p][5]],
                           kind_free_text="stateless bounded-exhaustive exploration of the real C++ objects (sharded enumerators, canonical hashing, BFS over operation histories)"),
                      dict(name="B", path="proc/", serves_properties=[p for p in sorted(P) if "B" in P[p][5]],
                           kind_free_text="process-level exhaustive enumeration of configurations / split points / fault files on the real binary; HDF5 read back through tools/h5json"),
                      dict(name="C", path="models/", serves_properties=[p for p in sorted(P) if "C" in P[p][5]],
                           kind_free_text="TLA+ model of main() checked by TLC; every terminal behaviour replayed on the hooked binary (two-way trace conformance)")],
             checks=checks, not_applicable=na,
             notes="Both tiers are exhaustive over their stated bounds; the quick tier already runs the wide lattices (about 7 minutes for all 20 checks on 16 cores), the thorough tier adds the combinatorially larger parts. Harness cases run many to a process (dealt round robin and in blocks), a violation that needs the history of its process is replayed with its whole shard. All checks rebuild from /repo's working tree (set VERIF_REPO to point them at another tree). known_findings.txt lists genuine defects that are recorded rather than repaired.")
    with open(os.path.join(VERIF, "MANIFEST.json"), "w") as f:
        json.dump(m, f, indent=1)
    print("claimed:", [c["property_id"] for c in checks])


if __name__ == "__main__":
    main()
