// h5json: dump an HDF5 file as JSON (no h5py / h5dump in the image).
//   h5json <file.h5> [--max N]          datasets with more than N values keep dims + per-record hashes but no "data"
//   h5json --write <out.h5> <n> <raw float32 file with n*n values>   minimal Inovesa start file (/PhaseSpace/data [1][1][n][n])
//   h5json --write-empty <out.h5> <n>                                 the same with zero records
// Output: {"datasets": {path: {"dims": [...], "type": "f32|f64|int|str", "data": [...], "rowhash": ["...", ...]}},
//          "attrs": {"path@name": value}, "links": {path: target}}
// float32 values are printed with %.9g and float64 with %.17g (round-trip exact); rowhash = FNV-1a of the raw bytes of every
// record along the first dimension, for bitwise comparisons that are also sensitive to -0 and NaN payloads.
#include <H5Cpp.h>
#include <cmath>
#include <cstdint>
#include <cstdio>
#include <cstdlib>
#include <cstring>
#include <string>
#include <vector>

static bool first_ds = true, first_at = true, first_ln = true;
static std::string DS, AT, LN;
static size_t MAXV = 50000000;

static std::string esc(const std::string& s) { std::string o; for (char c : s) { if (c == '"' || c == '\\') o += '\\'; if ((unsigned char)c >= 0x20) o += c; } return o; }
static uint64_t fnv(const void* p, size_t n) { uint64_t h = 1469598103934665603ULL; const unsigned char* c = (const unsigned char*)p; for (size_t i = 0; i < n; i++) { h ^= c[i]; h *= 1099511628211ULL; } return h; }
static void num(std::string& o, double v, bool f32) {
    char b[40];
    if (std::isnan(v)) { o += "NaN"; return; }
    if (std::isinf(v)) { o += v > 0 ? "Infinity" : "-Infinity"; return; }
    snprintf(b, 40, f32 ? "%.9g" : "%.17g", v); o += b;
}

static void dumpAttrs(H5::H5Object& o, const std::string& path) {
    for (int i = 0; i < o.getNumAttrs(); i++) {
        H5::Attribute a = o.openAttribute(i); auto t = a.getDataType(); std::string v;
        if (t.getClass() == H5T_FLOAT) { double d = 0; a.read(H5::PredType::NATIVE_DOUBLE, &d); num(v, d, t.getSize() == 4); }
        else if (t.getClass() == H5T_INTEGER) { long long d = 0; a.read(H5::PredType::NATIVE_LLONG, &d); v = std::to_string(d); }
        else continue;
        AT += (first_at ? "" : ",\n") + std::string("\"") + esc(path) + "@" + esc(a.getName()) + "\": " + v; first_at = false;
    }
}

static void walk(H5::Group& g, const std::string& path) {
    dumpAttrs(g, path.empty() ? "/" : path);
    for (hsize_t i = 0; i < g.getNumObjs(); i++) {
        std::string name = g.getObjnameByIdx(i), p = path + "/" + name;
        H5G_stat_t st; g.getObjinfo(name, false, st);
        if (st.type == H5G_LINK) {
            char buf[512] = {0}; H5Lget_val(g.getId(), name.c_str(), buf, 511, H5P_DEFAULT);
            LN += (first_ln ? "" : ",\n") + std::string("\"") + esc(p) + "\": \"" + esc(buf) + "\""; first_ln = false; continue;
        }
        if (st.type == H5G_GROUP) { H5::Group s = g.openGroup(name); walk(s, p); continue; }
        if (st.type != H5G_DATASET) continue;
        H5::DataSet d = g.openDataSet(name); H5::DataSpace sp = d.getSpace(); int r = sp.getSimpleExtentNdims();
        std::vector<hsize_t> dims(r > 0 ? r : 1, 1); if (r > 0) sp.getSimpleExtentDims(dims.data());
        size_t n = 1; for (int k = 0; k < r; k++) n *= dims[k];
        std::string e = "\"" + esc(p) + "\": {\"dims\": [";
        for (int k = 0; k < r; k++) e += (k ? "," : "") + std::to_string(dims[k]);
        e += "]";
        auto cls = d.getDataType().getClass(); const size_t tsz = d.getDataType().getSize();
        const size_t rows = (r > 0) ? dims[0] : 1, per = rows ? n / rows : 0;
        if (cls == H5T_FLOAT) {
            const bool f32 = tsz == 4; e += std::string(", \"type\": \"") + (f32 ? "f32" : "f64") + "\"";
            if (n > 0) {
                std::vector<double> v(n); d.read(v.data(), H5::PredType::NATIVE_DOUBLE);
                std::vector<float> raw; if (f32) { raw.resize(n); d.read(raw.data(), H5::PredType::NATIVE_FLOAT); }
                e += ", \"rowhash\": [";
                for (size_t k = 0; k < rows; k++) { char b[24]; snprintf(b, 24, "\"%016llx\"", (unsigned long long)(f32 ? fnv(raw.data() + k * per, per * 4) : fnv(v.data() + k * per, per * 8))); e += (k ? "," : ""); e += b; }
                e += "]";
                if (n <= MAXV) { e += ", \"data\": ["; for (size_t k = 0; k < n; k++) { if (k) e += ","; num(e, v[k], f32); } e += "]"; }
            } else e += ", \"rowhash\": [], \"data\": []";
        } else if (cls == H5T_INTEGER) {
            e += ", \"type\": \"int\"";
            std::vector<long long> v(n ? n : 1); if (n) d.read(v.data(), H5::PredType::NATIVE_LLONG);
            e += ", \"data\": ["; for (size_t k = 0; k < n; k++) e += (k ? "," : "") + std::to_string(v[k]); e += "]";
        } else if (cls == H5T_STRING) {
            e += ", \"type\": \"str\""; std::vector<char> v(n * tsz + 1, 0); if (n) d.read(v.data(), d.getDataType());
            e += ", \"data\": \"" + esc(std::string(v.data(), n * tsz)) + "\"";
        } else e += ", \"type\": \"other\"";
        e += "}";
        DS += (first_ds ? "" : ",\n") + e; first_ds = false;
        dumpAttrs(d, p);
    }
}

static int write_start(const char* out, unsigned n, const char* rawfile) {
    std::vector<float> v((size_t)n * n); FILE* f = fopen(rawfile, "rb"); if (!f || fread(v.data(), 4, v.size(), f) != v.size()) { fprintf(stderr, "cannot read %s\n", rawfile); return 2; } fclose(f);
    H5::H5File file(out, H5F_ACC_TRUNC); file.createGroup("/PhaseSpace");
    hsize_t dims[4] = {1, 1, n, n}; H5::DataSpace sp(4, dims);
    H5::DataSet ds = file.createDataSet("/PhaseSpace/data", H5::PredType::IEEE_F32LE, sp); ds.write(v.data(), H5::PredType::NATIVE_FLOAT);
    return 0;
}

// a results file whose /PhaseSpace/data exists but holds no record (extendible dataset of length 0)
static int write_empty(const char* out, unsigned n) {
    H5::H5File file(out, H5F_ACC_TRUNC); file.createGroup("/PhaseSpace");
    hsize_t dims[4] = {0, 1, n, n}, maxd[4] = {H5S_UNLIMITED, 1, n, n}, chunk[4] = {1, 1, n, n}; H5::DataSpace sp(4, dims, maxd);
    H5::DSetCreatPropList pl; pl.setChunk(4, chunk);
    file.createDataSet("/PhaseSpace/data", H5::PredType::IEEE_F32LE, sp, pl);
    return 0;
}

// /PhaseSpace/data of another rank than a results file has: 0 (a scalar), 1, 2 or 5
static int write_rank(const char* out, unsigned n, int rank) {
    H5::H5File file(out, H5F_ACC_TRUNC); file.createGroup("/PhaseSpace");
    std::vector<float> v((size_t)n * n, 0.01f);
    if (rank == 0) { H5::DataSpace sp(H5S_SCALAR); file.createDataSet("/PhaseSpace/data", H5::PredType::IEEE_F32LE, sp).write(v.data(), H5::PredType::NATIVE_FLOAT); return 0; }
    hsize_t dims[5] = {1, 1, 1, 1, 1}; if (rank == 1) dims[0] = (hsize_t)n * n; else { dims[rank - 2] = n; dims[rank - 1] = n; }
    H5::DataSpace sp(rank, dims); file.createDataSet("/PhaseSpace/data", H5::PredType::IEEE_F32LE, sp).write(v.data(), H5::PredType::NATIVE_FLOAT);
    return 0;
}

// the layout older versions of the program wrote: /PhaseSpace/data [records][n][n] (no bunch dimension); three records, record r = input * (1 + r/4)
static int write_start3(const char* out, unsigned n, const char* rawfile) {
    std::vector<float> v((size_t)n * n); FILE* f = fopen(rawfile, "rb"); if (!f || fread(v.data(), 4, v.size(), f) != v.size()) { fprintf(stderr, "cannot read %s\n", rawfile); return 2; } fclose(f);
    std::vector<float> all; for (int r = 0; r < 3; r++) for (float x : v) all.push_back(x * (1.f + 0.25f * r));
    H5::H5File file(out, H5F_ACC_TRUNC); file.createGroup("/PhaseSpace");
    hsize_t dims[3] = {3, n, n}; H5::DataSpace sp(3, dims);
    file.createDataSet("/PhaseSpace/data", H5::PredType::IEEE_F32LE, sp).write(all.data(), H5::PredType::NATIVE_FLOAT);
    return 0;
}

// /PhaseSpace/data [1][1][n][n] stored as 64-bit floats (what h5py writes by default, or a double-precision build of the program)
static int write_start64(const char* out, unsigned n, const char* rawfile) {
    std::vector<float> v((size_t)n * n); FILE* f = fopen(rawfile, "rb"); if (!f || fread(v.data(), 4, v.size(), f) != v.size()) { fprintf(stderr, "cannot read %s\n", rawfile); return 2; } fclose(f);
    std::vector<double> w(v.begin(), v.end());
    H5::H5File file(out, H5F_ACC_TRUNC); file.createGroup("/PhaseSpace");
    hsize_t dims[4] = {1, 1, n, n}; H5::DataSpace sp(4, dims);
    file.createDataSet("/PhaseSpace/data", H5::PredType::IEEE_F64LE, sp).write(w.data(), H5::PredType::NATIVE_DOUBLE);
    return 0;
}

int main(int c, char** v) {
    if (c >= 5 && std::string(v[1]) == "--write") return write_start(v[2], (unsigned)atoi(v[3]), v[4]);
    if (c >= 5 && std::string(v[1]) == "--write64") return write_start64(v[2], (unsigned)atoi(v[3]), v[4]);
    if (c >= 5 && std::string(v[1]) == "--write3") return write_start3(v[2], (unsigned)atoi(v[3]), v[4]);
    if (c >= 5 && std::string(v[1]) == "--write-rank") return write_rank(v[2], (unsigned)atoi(v[3]), atoi(v[4]));
    if (c >= 4 && std::string(v[1]) == "--write-empty") return write_empty(v[2], (unsigned)atoi(v[3]));
    if (c < 2) { fprintf(stderr, "usage: h5json file.h5 [--max N]\n"); return 2; }
    for (int i = 2; i + 1 < c; i++) if (std::string(v[i]) == "--max") MAXV = strtoull(v[i + 1], 0, 10);
    try {
        H5::Exception::dontPrint();
        H5::H5File f(v[1], H5F_ACC_RDONLY); H5::Group r = f.openGroup("/"); walk(r, "");
    } catch (H5::Exception& e) { printf("{\"error\": \"%s\"}\n", esc(e.getDetailMsg()).c_str()); return 1; }
    printf("{\"datasets\": {\n%s\n},\n\"attrs\": {\n%s\n},\n\"links\": {\n%s\n}}\n", DS.c_str(), AT.c_str(), LN.c_str());
    return 0;
}
