#!/bin/bash
# usage: seed_run.sh <seed-id> <property> [tier]  - apply seeded/<id>/patch.diff to /repo, run the check, undo the patch
ID=$1; P=$2; TIER=${3:-quick}; V=$(dirname $(dirname $(realpath $0)))
git -C /repo diff --quiet || { echo "/repo not clean"; exit 2; }
git -C /repo apply $V/seeded/$ID/patch.diff 2>/dev/null || (cd /repo && patch -p1 -F3 -s --no-backup-if-mismatch < $V/seeded/$ID/patch.diff) || { echo "patch does not apply"; git -C /repo checkout -- .; exit 2; }
cd $V; python3 tools/vcheck.py $P $TIER > /tmp/seedrun_$ID.log 2>&1; rc=$?
git -C /repo checkout -- .
n=$(grep -c '^VIOLATION property' /tmp/seedrun_$ID.log)
echo "seed $ID vs $P $TIER: rc=$rc violations=$n"; grep '^  key=' /tmp/seedrun_$ID.log | head -5; tail -1 /tmp/seedrun_$ID.log
