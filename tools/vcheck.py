#!/usr/bin/env python3
"""Single entry point:  python3 tools/vcheck.py <Cxx> <quick|thorough>      (check; rewrites evidence/<Cxx>.json)
                         python3 tools/vcheck.py <Cxx> --replay <replay.json>  (re-run one recorded violating case)
exit 0: property held on everything explored (known findings are printed as KNOWN-FINDING lines)
exit 1: at least one line  VIOLATION property=<id> replay=<path>"""
import importlib
import json
import os
import sys

VERIF = os.path.dirname(os.path.dirname(os.path.abspath(__file__)))
sys.path.insert(0, os.path.join(VERIF, "tools"))
sys.path.insert(0, VERIF)
import vlib  # noqa: E402


def main():
    if len(sys.argv) < 3:
        raise SystemExit(__doc__)
    prop = sys.argv[1]
    mod = importlib.import_module("checks." + prop)
    if sys.argv[2] == "--replay":
        with open(sys.argv[3]) as f:
            doc = json.load(f)
        rc = mod.replay(doc)
        sys.exit(rc)
    tier = os.environ.get("VERIF_TIER") or sys.argv[2]
    if tier not in ("quick", "thorough"):
        raise SystemExit("tier must be quick or thorough")
    res = vlib.Result(prop, tier, mod.LEVEL)
    confirm = None
    try:
        confirm = mod.run(res, tier)
    except SystemExit:
        raise
    except Exception as ex:      # noqa: BLE001
        # a check that cannot digest what the program under test produced has not shown that the property holds: reported as a violation with the
        # traceback (this never happens on the unchanged tree; on a changed tree it means the output deviates in a way the oracle did not foresee,
        # e.g. a results file without the datasets or attributes every run writes)
        import traceback
        tb = traceback.format_exc()
        res.exhaustive = False
        res.violate("%s/check-could-not-judge/%s" % (prop, type(ex).__name__), "the check itself", tb[-1500:])
        confirm = None
        if res.evaluations == 0:
            res.eval("(check aborted)", 0, trivial=True)
    sys.exit(vlib.finish(res, confirm))


if __name__ == "__main__":
    main()
