"""Engine C: TLC on models/MainLoop.tla + two-way conformance with the hooked binary.
   run_tlc(...)  -> (terminal states, stats)      every terminal state of the model, printed by TLC itself
   replay(...)   -> list of problems              runs build/bin-hook/inovesa with the same configuration and signal positions and
                                                  compares label trace, hit count, every modelled observable, exit status and log"""
import os
import re
import shutil
import subprocess
import sys

VERIF = os.path.dirname(os.path.dirname(os.path.abspath(__file__)))
sys.path.insert(0, os.path.join(VERIF, "tools"))
sys.path.insert(0, os.path.join(VERIF, "proc"))
import vlib  # noqa: E402
import pl  # noqa: E402

NPER = 8   # steps per synchrotron period used on the binary side (power of two: -T last/8 is exact)
TIME_DS = ["/BunchLength/data", "/BunchPopulation/data", "/BunchPosition/data", "/BunchProfile/data", "/CSR/Intensity/data",
           "/CSR/Spectrum/data", "/EnergyAverage/data", "/EnergyProfile/data", "/EnergySpread/data", "/Particles/data"]


# ------------------------------------------------------------------------------------------------ TLA value parser
def parse_tla(s):
    pos = [0]

    def ws():
        while pos[0] < len(s) and s[pos[0]] in " \n\t":
            pos[0] += 1

    def val():
        ws()
        if s.startswith("<<", pos[0]):
            pos[0] += 2
            out = []
            ws()
            if s.startswith(">>", pos[0]):
                pos[0] += 2
                return out
            while True:
                out.append(val())
                ws()
                if s.startswith(">>", pos[0]):
                    pos[0] += 2
                    return out
                assert s[pos[0]] == ",", s[pos[0]:pos[0] + 20]
                pos[0] += 1
        if s[pos[0]] == "[":
            pos[0] += 1
            d = {}
            while True:
                ws()
                m = re.match(r"(\w+)\s*\|->", s[pos[0]:])
                pos[0] += m.end()
                d[m.group(1)] = val()
                ws()
                if s[pos[0]] == "]":
                    pos[0] += 1
                    return d
                pos[0] += 1
        if s[pos[0]] == '"':
            e = s.index('"', pos[0] + 1)
            r = s[pos[0] + 1:e]
            pos[0] = e + 1
            return r
        m = re.match(r"TRUE|FALSE|-?\d+", s[pos[0]:])
        pos[0] += m.end()
        return {"TRUE": True, "FALSE": False}.get(m.group(0), None) if m.group(0) in ("TRUE", "FALSE") else int(m.group(0))
    return val()


def tla_set(xs):
    return "{" + ", ".join(("TRUE" if x else "FALSE") if isinstance(x, bool) else str(x) for x in xs) + "}"


def run_tlc(name, maxsigs, lasts, outsteps, saves, wakes, drfs, timeout=3000):
    d = os.path.join(vlib.BUILD, "tlc", name)
    shutil.rmtree(d, ignore_errors=True)
    os.makedirs(d)
    shutil.copy(os.path.join(VERIF, "models", "MainLoop.tla"), d)
    with open(os.path.join(d, "MainLoop.cfg"), "w") as f:
        f.write("CONSTANTS\n MaxSigs = %d\n Lasts = %s\n Outsteps = %s\n Saves = %s\n Wakes = %s\n Drfs = %s\nINIT Init\nNEXT Next\nINVARIANT Inv\nINVARIANT Term\n" % (
            maxsigs, tla_set(lasts), tla_set(outsteps), tla_set(saves), tla_set(wakes), tla_set(drfs)))
    r = subprocess.run(["tlc", "-workers", str(vlib.NJOBS), "-metadir", os.path.join(d, "meta"), "-config", "MainLoop.cfg", "MainLoop.tla"],
                       cwd=d, capture_output=True, text=True, timeout=timeout)
    out = r.stdout
    with open(os.path.join(d, "tlc.out"), "w") as f:
        f.write(out[-2000000:] if len(out) > 2000000 else out)
    terms = []
    keys = ["cfg", "sigAt", "hits", "step", "tAxis", "psAxis", "nCSR", "nWake", "nTracks", "nRF", "nPad", "word", "trace"]
    for m in re.finditer(r'<<\s*"TERM"', out):      # TLC pretty-prints long values over several lines
        end = out.find("\n<<", m.start() + 2)
        v = parse_tla(out[m.start():end if end > 0 else len(out)])
        t = dict(zip(keys, v[1:]))
        assert len(t["trace"]) == t["hits"], "garbled TLC output"
        terms.append(t)
    stats = dict(ok="Model checking completed. No error has been found" in out, states=0, distinct=0, depth=0)
    m = re.search(r"(\d+) states generated, (\d+) distinct states found", out)
    if m:
        stats["states"], stats["distinct"] = int(m.group(1)), int(m.group(2))
    m = re.search(r"depth of the complete state graph search is (\d+)", out)
    if m:
        stats["depth"] = int(m.group(1))
    if not stats["ok"]:
        stats["tail"] = out[-3000:]
    shutil.rmtree(os.path.join(d, "meta"), ignore_errors=True)
    return terms, stats


# ------------------------------------------------------------------------------------------------ the binary side
def args_of(cfg, track=None):
    a = ["-s", 8, "-N", NPER, "-T", cfg["last"] / NPER, "-n", cfg["outstep"], "--SavePhaseSpace", cfg["h5save"], "--padding", 2, "-d", 0.002]
    a += ["-G", 0.03, "--UseCSR", "false", "--CollimatorRadius", 0.002] if cfg["wake"] else ["-G", 0]
    if cfg["drf"]:
        a += ["--RFPhaseModAmplitude", 1, "--RFPhaseModFrequency", 40000]
    if track:
        a += ["--tracking", track, "--FPTrack", 1]
    if cfg.get("renorm") is not None:      # binary-side axis (the label trace does not depend on it)
        a += ["--RenormalizeCharge", cfg["renorm"]]
    return a


def _ignore_sigint():
    import signal
    signal.signal(signal.SIGINT, signal.SIG_IGN)


def observe(exe, cfg, sigat, wd, tag, track=None, inherit_ignored=False):
    """inherit_ignored: the program is started with SIGINT set to 'ignore' (as a background job of a non-interactive shell is)"""
    tr = os.path.join(wd, "trace_%s.txt" % tag)
    env = {"INOVESA_VERIF_TRACE": tr}
    if sigat:
        env["INOVESA_VERIF_SIGINT_AT"] = ",".join(str(x) for x in sigat)
    r = pl.run(exe, args_of(cfg, track), wd, out="o_%s.h5" % tag, env_extra=env, preexec_fn=_ignore_sigint if inherit_ignored else None)
    labels = []
    if os.path.exists(tr):
        with open(tr) as f:
            labels = [ln.split()[1] for ln in f if len(ln.split()) == 2]
        os.remove(tr)
    doc = pl.h5(r["h5"], maxv=3000) if os.path.exists(r["h5"]) else dict(error="no results file")
    for ext in ("", ".cfg", ".log"):
        try:
            os.remove(r["h5"] + ext)
        except OSError:
            pass
    word = ""
    for ln in r["log"].replace("\r", "\n").splitlines():
        if ln.rstrip().endswith("Finished.") or ln.rstrip().endswith("Aborted."):
            word = ln.rstrip().split()[-1]
    return dict(rc=r["rc"], log=r["log"], cmd=r["cmd"] + ("   [env INOVESA_VERIF_SIGINT_AT=%s%s]" % (env.get("INOVESA_VERIF_SIGINT_AT", ""), "; started with SIGINT ignored (trap '' INT)" if inherit_ignored else "")), labels=labels, doc=doc, word=word)


FILE_ONLY = set(["O%d" % i for i in range(2, 8)] + ["F%d" % i for i in range(0, 11)])   # hook points inside `if (hdf_file != nullptr)` blocks


def nofile_problems(exe, term, wd, tag):
    """the same behaviour of a run that writes no results file (--run_anyway, no -o): the hook points inside the file blocks are not passed, everything else
    is as the model says - the step in progress is completed, no new one started, the same final message, exit status 0.  A signal that the model
    delivers at a file-only point is delivered at the next point the run passes."""
    trace = term["trace"]
    keep = [i for i, lab in enumerate(trace) if lab not in FILE_ONLY]
    want = [trace[i] for i in keep]
    sig = []
    for h in term["sigAt"]:                       # 1-based hit numbers in the model's trace
        nxt = [k for k, i in enumerate(keep) if i >= h - 1]
        if not nxt:
            return [], None                       # (a signal after the last point a file-less run passes: nothing to replay)
        sig.append(nxt[0] + 1)
    if len(set(sig)) != len(sig):
        return [], None
    # the signal lands at another point than in the model: only behaviours whose outcome does not depend on that are replayed (same loop iteration / same block)
    for h, g in zip(term["sigAt"], sig):
        if trace[h - 1] != want[g - 1] and trace[h - 1][0] != want[g - 1][0]:
            return [], None
    tr = os.path.join(wd, "trace_%s_nofile.txt" % tag)
    env = {"INOVESA_VERIF_TRACE": tr}
    if sig:
        env["INOVESA_VERIF_SIGINT_AT"] = ",".join(str(x) for x in sig)
    r = pl.run(exe, args_of(term["cfg"]) + ["--run_anyway", "true"], wd, out=None, env_extra=env)
    labels = []
    if os.path.exists(tr):
        with open(tr) as f:
            labels = [ln.split()[1] for ln in f if len(ln.split()) == 2]
        os.remove(tr)
    word = ""
    for ln in r["log"].replace("\r", "\n").splitlines():
        if ln.rstrip().endswith("Finished.") or ln.rstrip().endswith("Aborted."):
            word = ln.rstrip().split()[-1]
    P = []
    cmd = r["cmd"] + "   [env INOVESA_VERIF_SIGINT_AT=%s]" % env.get("INOVESA_VERIF_SIGINT_AT", "")
    if r["rc"] != 0:
        P.append(("no-results-file/exit-status", "run without a results file: exit status %s   (%s)" % (r["rc"], cmd)))
    if labels != want:
        k = next((i for i, (a, b) in enumerate(zip(labels, want)) if a != b), min(len(labels), len(want)))
        P.append(("no-results-file/label-trace", "run without a results file: trace diverges from the model's (file-only points removed) at hit %d: binary %s model %s   (%s)" % (k + 1, labels[k:k + 3], want[k:k + 3], cmd)))
    if word != term["word"]:
        P.append(("no-results-file/final-message", "run without a results file: log ends with %r, model says %r   (%s)" % (word, term["word"], cmd)))
    return P, labels


def final_record_problems(term, ob, dense):
    """'one final record for the state reached': the last record of a run that stopped after s steps holds what a run of the same physics that writes
    every step holds for step s - dataset by dataset, bit for bit (dense = observation of that run: outstep 1, every phase space saved)"""
    P = []
    doc, dd = ob["doc"], dense["doc"]
    if "error" in doc or "error" in dd:
        return P
    s = int(term["step"])
    for name in TIME_DS + ["/WakePotential/data", "/PhaseSpace/data"]:
        a, b = doc["datasets"].get(name), dd["datasets"].get(name)
        if not a or not b or not a.get("rowhash") or not b.get("rowhash") or s >= len(b["rowhash"]):
            continue
        if a["rowhash"][-1] != b["rowhash"][s]:
            P.append(("final-record-is-not-the-state-reached", "%s: the final record (run stopped after %d steps) differs from the record of step %d of the run that writes every step" % (name, s, s)))
            break
    return P


def dim0(doc, name):
    d = doc["datasets"].get(name)
    return None if d is None else (d["dims"][0] if d["dims"] else 0)


def compare(term, ob, ref):
    """problems of one replayed behaviour; ref = observation of the uninterrupted run of the same configuration (or None)"""
    P = []
    cfg = term["cfg"]
    if ob["rc"] != 0:
        P.append(("exit-status", "exit status %s" % ob["rc"]))
    if ob["labels"] != term["trace"]:
        k = next((i for i, (a, b) in enumerate(zip(ob["labels"], term["trace"])) if a != b), min(len(ob["labels"]), len(term["trace"])))
        P.append(("label-trace", "binary trace diverges from the model's at hit %d: binary %s model %s (lengths %d / %d)" % (
            k + 1, ob["labels"][k:k + 3], term["trace"][k:k + 3], len(ob["labels"]), len(term["trace"]))))
    if ob["word"] != term["word"]:
        P.append(("final-message", "log ends with %r, model says %r" % (ob["word"], term["word"])))
    doc = ob["doc"]
    if "error" in doc:
        P.append(("file-unreadable", doc["error"][:200]))
        return P
    t = [round(x * NPER, 6) for x in doc["datasets"]["/Info/AxisValues_t"]["data"]]
    tp = [round(x * NPER, 6) for x in doc["datasets"]["/PhaseSpace/axis0"]["data"]]
    if t != [float(x) for x in term["tAxis"]]:
        P.append(("time-axis", "time axis (steps) %s, model %s" % (t, term["tAxis"])))
    if tp != [float(x) for x in term["psAxis"]]:
        P.append(("phase-space-axis", "phase-space axis (steps) %s, model %s" % (tp, term["psAxis"])))
    for name in TIME_DS:
        n = dim0(doc, name)
        if n != len(t):
            P.append(("dataset-length", "%s has %s records, the time axis %d" % (name, n, len(t))))
    if dim0(doc, "/PhaseSpace/data") != len(tp):
        P.append(("dataset-length", "/PhaseSpace/data has %s records, its axis %d" % (dim0(doc, "/PhaseSpace/data"), len(tp))))
    for name, want in (("/CSR/Intensity/data", term["nCSR"]), ("/WakePotential/data", term["nWake"]), ("/Particles/data", term["nTracks"]),
                       ("/RFKicks/data", term["nRF"]), ("/BunchProfile/padded", term["nPad"]), ("/WakePotential/padded", term["nPad"])):
        n = dim0(doc, name)
        if n != want:
            P.append(("record-count", "%s has %s records, model %d" % (name, n, want)))
    if cfg["wake"] and dim0(doc, "/WakePotential/data") != len(t):
        P.append(("dataset-length", "/WakePotential/data has %s records, the time axis %d" % (dim0(doc, "/WakePotential/data"), len(t))))
    # every record except the final one is identical to the corresponding record of the uninterrupted run
    if ref is not None and "error" not in ref["doc"]:
        rd = ref["doc"]
        for name in TIME_DS + ["/WakePotential/data", "/Info/AxisValues_t"]:
            a, b = doc["datasets"].get(name), rd["datasets"].get(name)
            if not a or not b or "rowhash" not in a or "rowhash" not in b:
                continue
            ha, hb = a["rowhash"][:-1], b["rowhash"]
            if ha != hb[:len(ha)]:
                P.append(("earlier-record-differs", "%s: a record before the final one differs from the uninterrupted run" % name))
        a, b = doc["datasets"]["/PhaseSpace/data"]["rowhash"][:-1], rd["datasets"]["/PhaseSpace/data"]["rowhash"]
        ta, tb = tp[:-1], [round(x * NPER, 6) for x in rd["datasets"]["/PhaseSpace/axis0"]["data"]]
        for x, hsh in zip(ta, a):
            if x in tb and b[tb.index(x)] != hsh:
                P.append(("earlier-record-differs", "/PhaseSpace/data record of step %s differs from the uninterrupted run" % x))
                break
        # /RFKicks: rows written so far must be a prefix of the uninterrupted run's
        a, b = doc["datasets"].get("/RFKicks/data"), rd["datasets"].get("/RFKicks/data")
        if a and b and a.get("rowhash") is not None and b.get("rowhash") is not None and a["rowhash"] != b["rowhash"][:len(a["rowhash"])]:
            P.append(("earlier-record-differs", "/RFKicks/data is not a prefix of the uninterrupted run's"))
    return P
