---- MODULE MainLoop ----
(* Model of Inovesa's main() from the installation of the SIGINT handler to return (src/main.cpp), at the granularity of the
   INOVESA_VERIF_POINT hooks.  pc = label of the hook reached last; one Move = the code between that hook and the next one.
   Interrupt = a SIGINT delivered at a hook (the handler only sets Display::abort, which main() reads at the loop head and
   before the final message).  History variables (tAxis, psAxis, nCSR, ...) are the records the code appends to the results
   file; trace is the label path; sigAt the hook hits at which signals were delivered.  The configuration is chosen in Init,
   so one TLC run covers the whole configuration lattice.  Every terminal state is printed (Term) and replayed on the real
   binary by models/conform.py, which also requires the binary's own label trace to equal `trace`. *)
EXTENDS Naturals, Sequences, TLC
CONSTANTS MaxSigs, Lasts, Outsteps, Saves, Wakes, Drfs
VARIABLES pc, step, outnr, abort, sigs, hits, cfg, tAxis, psAxis, nCSR, nWake, nTracks, nRF, pend, nPad, word, sigAt, trace, intHere
vars == <<pc, step, outnr, abort, sigs, hits, cfg, tAxis, psAxis, nCSR, nWake, nTracks, nRF, pend, nPad, word, sigAt, trace, intHere>>

Cfgs == [last: Lasts, outstep: Outsteps, h5save: Saves, wake: Wakes, drf: Drfs]

Init == /\ cfg \in Cfgs /\ pc = "S0" /\ step = 0 /\ outnr = 0 /\ abort = FALSE /\ sigs = MaxSigs /\ hits = 1
        /\ tAxis = <<>> /\ psAxis = <<>> /\ nCSR = 0 /\ nWake = 0 /\ nTracks = 0 /\ nRF = 0 /\ pend = 0 /\ nPad = 0
        /\ word = "" /\ sigAt = <<>> /\ trace = <<"S0">> /\ intHere = FALSE

SetupNext == [S0 |-> "S1", S1 |-> "S2", S2 |-> "S3", S3 |-> "S4", S4 |-> "S5", S5 |-> "S6", S6 |-> "S7", S7 |-> "S8",
              S8 |-> "S9", S9 |-> "S10", S10 |-> "S11", S11 |-> "S12", S12 |-> "S13", S13 |-> "S14"]
Chain == [O0 |-> "O1", O1 |-> "O2", O2 |-> "O3", O3 |-> "O4", O4 |-> "O5", O5 |-> "O6", O6 |-> "O7", O7 |-> "O8", O8 |-> "O9", O9 |-> "M1",
          M1 |-> "M2", M2 |-> "M3", M3 |-> "M4", M4 |-> "M5", M5 |-> "M6", M6 |-> "M7", M7 |-> "M8", M8 |-> "L3", L3 |-> "L4",
          L0 |-> "L1", L1 |-> "L2",
          F0 |-> "F1", F1 |-> "F2", F2 |-> "F3", F3 |-> "F4", F4 |-> "F5", F5 |-> "F6", F6 |-> "F7", F7 |-> "F8", F8 |-> "F9", F9 |-> "F10",
          F10 |-> "E0", E0 |-> "E1", E1 |-> "E2"]

\* while (simulationstep<laststep && !Display::abort)
LoopTest(s, a) == IF s < cfg.last /\ ~a THEN "L0" ELSE "F0"
IsOut == cfg.outstep > 0 /\ step % cfg.outstep = 0

Target == CASE pc \in DOMAIN SetupNext -> SetupNext[pc]
            [] pc = "S14" -> LoopTest(step, abort)
            [] pc = "L2"  -> IF IsOut THEN "O0" ELSE "M1"
            [] pc = "L4"  -> LoopTest(step, abort)
            [] pc = "E2"  -> "done"
            [] OTHER -> Chain[pc]

Move == /\ pc # "done"
        /\ LET t == Target IN
           /\ pc' = t
           /\ hits' = IF t = "done" THEN hits ELSE hits + 1
           /\ trace' = IF t = "done" THEN trace ELSE Append(trace, t)
           /\ tAxis' = IF t \in {"O2","F4"} THEN Append(tAxis, step) ELSE tAxis
           /\ psAxis' = IF t = "F4" \/ (t = "O2" /\ cfg.h5save > 0 /\ outnr % cfg.h5save = 0) \/ (t = "S14" /\ cfg.h5save = 0)
                        THEN Append(psAxis, step) ELSE psAxis
           /\ nCSR' = IF t \in {"O4","F6"} THEN nCSR + 1 ELSE nCSR
           /\ nWake' = IF t \in {"O5","F7"} /\ cfg.wake THEN nWake + 1 ELSE nWake
           /\ nTracks' = IF t \in {"O6","F8"} THEN nTracks + 1 ELSE nTracks
           /\ nRF' = IF t \in {"O7","F9"} /\ cfg.drf THEN nRF + pend ELSE nRF
           /\ pend' = IF t \in {"O7","F9"} THEN 0 ELSE IF t = "M3" /\ cfg.drf THEN pend + 1 ELSE pend
           /\ nPad' = IF t \in {"S14","F10"} /\ cfg.wake THEN nPad + 1 ELSE nPad
           /\ outnr' = IF t = "O8" THEN outnr + 1 ELSE outnr
           /\ step' = IF t = "L4" THEN step + 1 ELSE step
           \* if(Display::abort) "Aborted." else "Finished."   (read between E1 and E2)
           /\ word' = IF t = "E2" THEN (IF abort THEN "Aborted." ELSE "Finished.") ELSE word
        /\ intHere' = FALSE
        /\ UNCHANGED <<abort, sigs, cfg, sigAt>>

Interrupt == /\ pc # "done" /\ sigs > 0 /\ ~intHere
             /\ abort' = TRUE /\ sigs' = sigs - 1 /\ sigAt' = Append(sigAt, hits) /\ intHere' = TRUE
             /\ UNCHANGED <<pc, step, outnr, hits, cfg, tAxis, psAxis, nCSR, nWake, nTracks, nRF, pend, nPad, word, trace>>

Done == pc = "done" /\ UNCHANGED vars
Next == Move \/ Interrupt \/ Done

RECURSIVE Expected(_,_)
Expected(k, s) == IF k >= s THEN <<s>> ELSE IF cfg.outstep > 0 /\ k % cfg.outstep = 0 THEN <<k>> \o Expected(k+1, s) ELSE Expected(k+1, s)

\* C10 / C14 / C19 on the model: consistent lengths, the time axis lists the output steps below the step reached plus that step,
\* one RF record per executed step, padded profiles twice, the step in progress is completed, the word tells whether it was aborted
Inv == pc = "done" =>
        /\ Len(tAxis) = nCSR /\ nCSR = nTracks /\ (cfg.wake => nWake = Len(tAxis))
        /\ tAxis = Expected(0, step)
        /\ (cfg.drf => nRF = step)
        /\ nPad = (IF cfg.wake THEN 2 ELSE 0)
        /\ step <= cfg.last
        /\ (sigAt = <<>> => step = cfg.last /\ word = "Finished.")
        /\ (word = "Aborted." => sigAt # <<>>)
        /\ Len(psAxis) > 0 /\ psAxis[Len(psAxis)] = step
        /\ \A i \in 1..Len(psAxis) : \E j \in 1..Len(tAxis) : (tAxis[j] = psAxis[i]) \/ (i = 1 /\ psAxis[i] = 0)
Term == pc = "done" => PrintT(<<"TERM", cfg, sigAt, hits, step, tAxis, psAxis, nCSR, nWake, nTracks, nRF, nPad, word, trace>>)
====
