"""C09 - normalisation and moments of the real PhaseSpace (API harness) + the renormalisation as main() schedules it (process level)"""
import math
import os
import sys

import vlib
from checks import _api
sys.path.insert(0, os.path.join(vlib.VERIF, "proc"))
import pl  # noqa: E402

LEVEL = "exploration"
NSTEPS = 10


def blob(n, scale):
    """an off-centre Gaussian blob whose integral is far from one"""
    v = []
    for x in range(n):
        for y in range(n):
            q, p = (x - 0.5 * (n - 1)) * 12.0 / (n - 1), (y - 0.5 * (n - 1)) * 12.0 / (n - 1)
            v.append(scale * math.exp(-0.5 * ((q - 0.7) ** 2 / 1.3 ** 2 + (p + 0.4) ** 2 / 0.9 ** 2)))
    return v


def process_level(res, tier):
    """main() renormalises once before the first record when RenormalizeCharge >= 0 and every RenormalizeCharge-th step when it is positive: in the
    records written at those steps every bunch holds exactly its share of the filling pattern and the train holds one."""
    exe = pl.build.build_bin("plain")
    wd = pl.workdir("c09p")
    fills = {"single": [1e-3], "2:1": [2e-3, 1e-3], "2:0:1": [2e-3, 0, 1e-3], "1:1:0:3": [5e-4, 5e-4, 0, 1.5e-3]}
    if vlib.deep(tier):
        fills.update({"0:1": [0, 1e-3], "1:2:3:0:4:5": [1e-3, 2e-3, 3e-3, 0, 4e-3, 5e-3]})
    ns = [16, 24] + ([33, 64] if vlib.deep(tier) else [])
    starts = ["zoom1.7", "zoom0.8", "file0.5", "file1.7"]
    renorms = [0, 1, 3, 4, 7] + ([2, 5, 10, 11] if vlib.deep(tier) else [])
    physics = [["-d", 0.002, "--FPType", 3], ["-d", 0, "--FPType", 0]]
    pl.warm(exe, [["-s", n, "-N", 8, "-T", 0.125, "--padding", 2, "-G", 0.03, "--UseCSR", "false", "-n", 1] for n in ns], "c09warm")
    for n in ns:
        for sc in (0.5, 1.7):
            pl.write_start_h5(os.path.join(wd, "start%d_%s.h5" % (n, sc)), n, blob(n, sc))
    jobs = [(n, f, s, r, ph) for n in ns for f in fills for s in starts for r in renorms for ph in range(len(physics))
            if not (s.startswith("file") and (len(fills[f]) > 1 or r == 0))]
    # (a start file holds one bunch.  File start with RenormalizeCharge 0 is left out: main() passes the loaded grid through normalize() alone, which by its
    #  contract divides by the integral of the last integrate() - for a freshly loaded grid that of the placeholder, so no renormalisation takes place and
    #  C09 has nothing to say; C11 relies on exactly that: the stored values are loaded as they are)

    def do(j):
        n, f, s, r, ph = j
        a = ["-s", n, "-N", 8, "-T", NSTEPS / 8.0, "--padding", 2, "-G", 0.03, "--UseCSR", "false", "-n", 1, "--RenormalizeCharge", r, "-I"] + fills[f] + physics[ph]
        a += ["--InitialDistZoom", s[4:]] if s.startswith("zoom") else ["-i", os.path.join(wd, "start%d_%s.h5" % (n, s[4:]))]
        rr = pl.run(exe, a, wd, out="o_%d_%s_%s_%d_%d.h5" % (n, f.replace(":", ""), s, r, ph))
        doc = pl.h5(rr["h5"], maxv=4000) if rr["rc"] == 0 else None
        for ext in ("", ".cfg", ".log"):
            try:
                os.remove(rr["h5"] + ext)
            except OSError:
                pass
        return j, rr, doc
    drift_seen = 0
    for j, rr, doc in pl.pmap(do, jobs):
        n, f, s, r, ph = j
        case = "process n=%d filling=%s start=%s renorm=%d physics=%s" % (n, f, s, r, "damped" if ph == 0 else "hamiltonian")
        rp = dict(cmd=rr["cmd"])
        if doc is None or "error" in doc or "/BunchPopulation/data" not in doc["datasets"]:
            res.violate("C09/process/run-failed", case, "rc=%s %s" % (rr["rc"], rr["log"][-200:]), replay=rp)
            continue
        pop = pl.rows(doc, "/BunchPopulation/data")
        res.eval(case, pl.chash(case, doc["datasets"]["/BunchPopulation/data"]["rowhash"]), trivial=False)
        filled = [x for x in fills[f] if x > 0]
        share = [x / sum(filled) for x in filled]
        if len(pop) != NSTEPS + 1 or any(len(row) != len(share) for row in pop):
            res.violate("C09/process/shape", case, "/BunchPopulation/data has shape %s, expected %d records of %d bunches (empty buckets hold no bunch)" % (doc["datasets"]["/BunchPopulation/data"]["dims"], NSTEPS + 1, len(share)), replay=rp)
            continue
        worst_off = 0.0
        for k, row in enumerate(pop):
            at = k == 0 or (r > 0 and k % r == 0)
            dev = max(abs(x - sh) for x, sh in zip(row, share))
            if at:
                res.coverage["worst_population_minus_share_at_a_renormalisation_step"] = max(res.coverage.get("worst_population_minus_share_at_a_renormalisation_step", 0), dev)
                if not dev <= 4e-6:
                    res.violate("C09/process/population-is-not-the-share/%s/%s" % ("first-record" if k == 0 else "in-loop", "nb=1" if len(share) == 1 else "nb>1"), case,
                                "record %d (a renormalisation step): populations %s, shares of the filling pattern %s" % (k, row, share), replay=rp)
                    break
            else:
                worst_off = max(worst_off, dev)
        drift_seen += worst_off > 1e-4
    res.coverage["process_runs_whose_charge_really_drifted_between_renormalisations"] = drift_seen
    if not drift_seen:
        res.violate("C09/process/vacuous", "process level", "no run's charge drifted between renormalisations: the oracle would hold without any renormalisation", replay={})
    res.bounds_done.append("process level: %d runs = grid sizes %s x filling patterns %s x starts %s x RenormalizeCharge %s x {damped, Hamiltonian}; every record at a renormalisation step: population of every bunch = its share within 4e-6" % (len(jobs), ns, sorted(fills), starts, renorms))


def run(res, tier):
    res.assumptions += [
        "both axes have the same extent (main() can build nothing else; the Simpson weights are documented to assume it)",
        "moments are compared with analytic values only for Gaussians resolved by the grid (sigma >= 2.5 cells) and lying inside it (mean +- 4 sigma)",
        "a bunch with a positive share holds some charge before normalisation",
        "process level: /BunchPopulation is the Simpson integral main() records; 4e-6 covers the single-precision sum over at most 64 cells"]
    c = _api.run(res, tier, ["C09_moments"])
    process_level(res, tier)
    return c


replay = _api.replay
