"""C09 - normalisation and moments of the real PhaseSpace"""
from checks import _api
LEVEL = "exploration"


def run(res, tier):
    res.assumptions += [
        "both axes have the same extent (main() can build nothing else; the Simpson weights are documented to assume it)",
        "moments are compared with analytic values only for Gaussians resolved by the grid (sigma >= 2.5 cells) and lying inside it (mean +- 4 sigma)",
        "a bunch with a positive share holds some charge before normalisation"]
    return _api.run(res, tier, ["C09_moments"])


replay = _api.replay
