"""C11 - continuing from a results file equals never having stopped (every split point of a 16-step run; refusal cases)"""
import math
import os
import shutil
import sys

import vlib
sys.path.insert(0, os.path.join(vlib.VERIF, "proc"))
import pl  # noqa: E402

LEVEL = "fault_enumeration"
TOTAL = 16      # steps of the uninterrupted run
NPER = 8        # steps per synchrotron period: a power of two, so that -T k/8 is exact in single precision


# further parameters that both legs and the uninterrupted run share ("with the same parameters")
VARIANTS = [[], ["--PhaseSpaceShiftX", 2, "--PhaseSpaceShiftY", -1], ["--PhaseSpaceShiftY", 3], ["--LinearRF", "false", "--derivation", 3],
            ["--PhaseSpaceSize", 10, "--InterpolationPoints", 3], ["--alpha1", 0.02, "-f", 30000],
            # further parameters the continued leg has to pick up exactly as the first leg had them
            ["--alpha2", 5.0], ["--BeamEnergy", 2.5e9, "--AcceleratingVoltage", 1.4e6, "--BendingRadius", 5.559], ["--HarmonicNumber", 184, "--RevolutionFrequency", 2.7e6],
            ["--InterpolateClamped", "true"], ["--RoundPadding", "false", "--padding", 2.3], ["--FPType", 1], ["--PhaseSpaceShiftX", -2.5, "--LinearRF", "false"],
            ["--AcceleratingVoltage", 2e5, "--LinearRF", "false", "--alpha1", 0.01]]


def base(n, imp, var=0):
    a = ["-s", n, "-N", NPER, "--padding", 2, "-I", 1e-3, "-d", 0.004]
    a += (["-G", 0] if imp == "none" else ["-G", 0.03, "--UseCSR", "false", "--CollimatorRadius", 0.002])
    v = VARIANTS[var]
    if "--padding" in v:      # replaces the base value
        i = a.index("--padding"); del a[i:i + 2]
    return a + v


def blob(n):
    """asymmetric, off-centre start (a transposed or shifted read is visible), integral about 1 on the 12x12 phase space"""
    v = []
    d = 12.0 / (n - 1)
    for x in range(n):
        for y in range(n):
            q, p = -6 + x * d, -6 + y * d
            v.append(math.exp(-((q - 0.9) ** 2 / 1.4 + (p + 0.6) ** 2 / 0.8 + 0.5 * (q - 0.9) * (p + 0.6))))
    s = sum(v) * d * d
    return [x / s for x in v]


def last_ps(doc, idx=-1):
    d = doc["datasets"]["/PhaseSpace/data"]
    per = d["dims"][2] * d["dims"][3]
    nrec = d["dims"][0]
    i = idx % nrec
    return d["data"][i * per:(i + 1) * per], d["rowhash"][i]


def run(res, tier):
    res.assumptions += [
        "horizon 16 steps, thorough tier 32 (8 per synchrotron period: step counts exact in single precision); all split points including the two ends (a first or a second leg of length zero)",
        "bit-identity demanded for RenormalizeCharge<0; RenormalizeCharge=0: equal within rounding (4e-7 of the maximum for the loaded state, 2e-5 for the end state: main() passes the loaded grid through normalize() once, which for a grid read from a file divides by 1 +- an ulp); RenormalizeCharge>0: the continued run renormalises on a different schedule: loaded state = stored state / recorded charge, end state within (|1/Q-1|+1e-6)*max f with Q the recorded charge (twice that with an impedance: amplitude and wake kick both scale with the charge)",
        "same FFTW wisdom for all runs (warm-up); start state = asymmetric off-centre blob loaded from a start file",
        "RF modulation / noise are not part of the lattice (the modulation phase is a function of the time since program start, which a results file does not carry)",
        "a start file of another grid size is not a C11 refusal case (not listed in the statement); it is covered as a memory-safety case by C17"]
    global TOTAL
    TOTAL = 32 if vlib.deep(tier) else 16        # thorough: every split point of a 32-step run
    exe = pl.build.build_bin("plain")
    ns = [16, 24] if vlib.wide(tier) else [16]
    imps = ["none", "collimator"]
    renorms = [-1, 0, 3, 4]
    pl.warm(exe, [base(n, i) + ["-T", 0.125, "-n", 1] for n in ns for i in imps], "c11warm")
    wd = pl.workdir("c11")
    starts = {}
    for n in ns:
        starts[n] = os.path.join(wd, "start%d.h5" % n)
        pl.write_start_h5(starts[n], n, blob(n))
    # last element: how the uninterrupted run and the first leg start - from the blob file, or from the built-in Gaussian (zoomed; no -i at all,
    # so that only the second leg goes through the loader)
    groups = [(n, i, r, 0, st) for n in ns for i in imps for r in renorms for st in ("file", "gauss")]
    # the parameter variants: for one exact (RenormalizeCharge<0) and one bounded configuration (all of them in the thorough tier)
    groups += [(n, i, r, v, st) for v in range(1, len(VARIANTS)) for st in ("file", "gauss") for n, i, r in ([(16, "collimator", -1), (16, "none", 0)] if tier == "quick" else [(n, i, r) for n in ns for i in imps for r in (-1, 0)])]
    srecs = [None] if tier == "quick" else [None, -1, 0, 2, -2]

    def first_start(n, st):
        return ["-i", starts[n]] if st == "file" else ["--InitialDistZoom", 0.8]

    def full(g):
        n, imp, rn, var, st = g
        r = pl.run(exe, base(n, imp, var) + first_start(n, st) + ["-T", TOTAL / NPER, "-n", 0, "--RenormalizeCharge", rn], wd, out="full_%d_%s_%d_%d_%s.h5" % g)
        return g, r, (pl.h5(r["h5"]) if r["rc"] == 0 else None)
    fulls = {g: (r, d) for g, r, d in pl.pmap(full, groups)}

    cases = []
    for g in groups:
        for t1 in range(0, TOTAL + 1):
            for sr in (srecs if (g[0] == 16 and g[1] == "collimator" and g[3] == 0 and g[4] == "file") or (vlib.wide(tier) and g[3] == 0 and g[4] == "file") else [None]):
                cases.append((g, t1, sr, 1))
    # the first leg written with a coarser phase-space cadence: the final state is stored regardless, "the last record" is the state at T1
    for g in [(16, "collimator", -1, 0, "file"), (16, "none", 0, 0, "gauss")] + ([(24, "collimator", -1, 0, "gauss")] if vlib.wide(tier) else []):
        for t1 in range(1, TOTAL):
            for sv in (2, 3):
                cases.append((g, t1, None, sv))
    if tier == "quick":   # start-record variants for one configuration per renormalisation sign
        for g in [(16, "collimator", -1, 0, "file"), (16, "none", 0, 0, "file")]:
            for t1 in (3, 8, 15):
                for sr in (-1, 0, 2, -2):
                    cases.append((g, t1, sr, 1))

    def legs(c):
        g, t1, sr, sv = c
        n, imp, rn, var, st = g
        tag = "%d_%s_%d_v%d_%s_t%d_s%s_c%d" % (n, imp, rn, var, st, t1, sr, sv)
        a1 = base(n, imp, var) + first_start(n, st) + ["-T", t1 / NPER, "-n", 1, "--SavePhaseSpace", sv, "--RenormalizeCharge", rn]
        r1 = pl.run(exe, a1, wd, out="leg1_%s.h5" % tag)
        if r1["rc"] != 0:
            return c, r1, None, None, None, None
        d1 = pl.h5(r1["h5"])
        nrec = d1["datasets"]["/PhaseSpace/data"]["dims"][0]       # records at steps 0..t1
        outside = sr is not None and not (-nrec <= sr < nrec)      # the chosen record does not exist: the start must be refused (not wrapped around)
        step_r = t1 if sr is None else (sr % nrec)
        a2 = base(n, imp, var) + ["-i", r1["h5"], "-T", (TOTAL - step_r) / NPER, "-n", 1, "--SavePhaseSpace", 1, "--RenormalizeCharge", rn]
        if sr is not None:
            a2 += ["--InitialDistStep", sr]
        r2 = pl.run(exe, a2, wd, out="leg2_%s.h5" % tag)
        if outside:
            produced = os.path.exists(r2["h5"])
            for ext in ("", ".cfg", ".log"):
                for r in (r1, r2):
                    try:
                        os.remove(r["h5"] + ext)
                    except OSError:
                        pass
            return c, r1, d1, r2, dict(outside=True, produced=produced), step_r
        d2 = pl.h5(r2["h5"]) if r2["rc"] == 0 and os.path.exists(r2["h5"]) else None
        if d2 is not None and "error" not in d2 and sr is None and sv == 1 and var == 0 and t1 in (1, TOTAL // 2, TOTAL - 1):
            # the continuation written over the file it starts from (-i x.h5 -o x.h5): the same state must be loaded and the same end state reached
            inpl = os.path.join(wd, "inplace_%s.h5" % tag)
            shutil.copyfile(r1["h5"], inpl)
            a3 = list(a2); a3[a3.index("-i") + 1] = inpl
            r3 = pl.run(exe, a3, wd, out=os.path.basename(inpl))
            d3 = pl.h5(inpl) if r3["rc"] == 0 and os.path.exists(inpl) else None
            d2["_inplace"] = dict(cmd=r3["cmd"], rc=r3["rc"], log=r3["log"][-200:],
                                  first=last_ps(d3, 0)[1] if d3 and "error" not in d3 and d3["datasets"]["/PhaseSpace/data"]["dims"][0] else None,
                                  final=last_ps(d3, -1)[1] if d3 and "error" not in d3 and d3["datasets"]["/PhaseSpace/data"]["dims"][0] else None)
            for ext in ("", ".cfg", ".log"):
                try:
                    os.remove(inpl + ext)
                except OSError:
                    pass
        for r in (r1, r2):
            for ext in ("", ".cfg", ".log"):
                try:
                    os.remove(r["h5"] + ext)
                except OSError:
                    pass
        return c, r1, d1, r2, d2, step_r

    for c, r1, d1, r2, d2, step_r in pl.pmap(legs, cases):
        g, t1, sr, sv = c
        n, imp, rn, var, st = g
        case = "n=%d impedance=%s renorm=%d split=%d startrecord=%s start=%s%s%s" % (n, imp, rn, t1, sr, st, (" options=" + "_".join(str(x) for x in VARIANTS[var])) if var else "", " first-leg-SavePhaseSpace=%d" % sv if sv != 1 else "")
        rp = dict(leg1=r1["cmd"], leg2=r2["cmd"] if r2 else None, full=fulls[g][0]["cmd"])
        if d2 is not None and d2.get("outside"):
            res.eval(case, pl.chash(case, "refusal"), trivial=False)
            if d2["produced"] or "Starting the simulation" in r2["log"] or r2["rc"] not in (0, 1):
                res.violate("C11/refusal/record-outside-the-file/not-refused", case, "record %s of a file with fewer records: results produced=%s, exit %s" % (sr, d2["produced"], r2["rc"]), replay=rp)
            continue
        if d1 is None or d2 is None or "error" in d1 or "error" in d2 or fulls[g][1] is None:
            res.violate("C11/run-failed", case, "leg1 rc=%s leg2 rc=%s %s" % (r1["rc"], r2["rc"] if r2 else None, (r2 or r1)["log"][-200:]), replay=rp)
            continue
        chosen, chosen_h = last_ps(d1, -1 if sr is None else step_r)   # the phase-space cadence of the first leg may be coarser than one: "last" is the last record
        first2, first2_h = last_ps(d2, 0)
        final2, final2_h = last_ps(d2, -1)
        finalf, finalf_h = last_ps(fulls[g][1], -1)
        res.eval(case, pl.chash(case, final2_h), trivial=False)
        exact = rn < 0
        ip = d2.get("_inplace")
        if ip is not None:
            res.eval(case + " continued in place", pl.chash(case, "inplace", ip["final"]), trivial=False)
            res.coverage["continuations_written_over_their_start_file"] = res.coverage.get("continuations_written_over_their_start_file", 0) + 1
            if ip["first"] != first2_h or ip["final"] != final2_h:
                res.violate("C11/in-place-continuation-differs/%s" % ("run-failed" if ip["final"] is None else "loaded-state" if ip["first"] != first2_h else "end-state"), case,
                            "the continuation written over the file it starts from (-i x.h5 -o x.h5) does not load / reach the same state as the one written to a new file (exit %s) %s" % (ip["rc"], ip["log"] if ip["final"] is None else ""),
                            replay=dict(rp, inplace=ip["cmd"], note="copy the first leg's file to the -o path before running the in-place command"))
        mx = max(abs(x) for x in finalf)
        if not (mx > 0) or any(x != x for x in final2):
            # an empty or non-finite end state is not a state any continuation can be compared with: reported, never divided by
            res.violate("C11/end-state-empty-or-non-finite/%s" % ("uninterrupted-run" if not (mx > 0) else "continued-run"), case,
                        "max |f| of the uninterrupted run's final phase space = %r; non-finite values in the continued run's: %s" % (mx, any(x != x for x in final2)), replay=rp)
            continue
        pop = d1["datasets"]["/BunchPopulation/data"]["data"]
        q = pop[step_r] if step_r < len(pop) else pop[-1]
        kb = "renorm<0" if exact else "renorm=0" if rn == 0 else "renorm>0"
        ik = "impedance" if imp != "none" else "no-impedance"
        # (a) the loaded state is the stored state
        if exact:
            if first2_h != chosen_h:
                res.violate("C11/loaded-state-differs/%s" % kb, case, "first /PhaseSpace record of the continued run is not bit-identical to the chosen record (step %d) of the first leg" % step_r, replay=rp)
        elif rn == 0:
            # RenormalizeCharge 0: main() calls normalize() once on the loaded grid, which divides by the integral the grid object holds - for a grid read from a
            # file that of the unit placeholder it was built with (1 to rounding): the stored values come back to within an ulp or two
            dev = max(abs(a - b) for a, b in zip(first2, chosen)) / max(abs(x) for x in chosen)
            res.coverage["worst_loaded_state_deviation_renorm0"] = max(res.coverage.get("worst_loaded_state_deviation_renorm0", 0), dev)
            if dev > 4e-7:
                res.violate("C11/loaded-state-differs/%s" % kb, case, "first record of the continued run deviates from the chosen record by %.3g of its maximum (rounding allows 4e-7)" % dev, replay=rp)
        else:
            scale = sum(first2) / sum(chosen) if sum(chosen) else 1
            dev = max(abs(a - b * scale) for a, b in zip(first2, chosen)) / mx
            # RenormalizeCharge > 0 asks for a renormalisation at step 0: the loaded state is the stored one divided by its recorded charge q, nothing else
            if dev > 1e-5 or abs(scale * q - 1) > 2e-5:
                res.violate("C11/loaded-state-differs/%s" % kb, case, "first record of the continued run deviates from the chosen record beyond a renormalisation (relative %.3g, scale %.8g, recorded charge %.8g)" % (dev, scale, q), replay=rp)
        # (b) the end state equals that of the uninterrupted run
        if exact:
            if final2_h != finalf_h:
                dev = max(abs(a - b) for a, b in zip(final2, finalf)) / mx
                res.violate("C11/end-state-differs/%s/%s" % (kb, ik), case,
                            "final phase space of the continued run is not bit-identical to the uninterrupted run (max relative difference %.3g)" % dev, replay=rp)
        elif rn == 0:
            dev = max(abs(a - b) for a, b in zip(final2, finalf)) / mx
            res.coverage["worst_end_state_deviation_renorm0"] = max(res.coverage.get("worst_end_state_deviation_renorm0", 0), dev)
            if dev > 2e-5:
                res.violate("C11/end-state-differs/%s/%s" % (kb, ik), case,
                            "final phase space of the continued run differs from the uninterrupted run by %.3g of its maximum (rounding over the horizon allows 2e-5)" % dev, replay=rp)
        else:
            dev = max(abs(a - b) for a, b in zip(final2, finalf))
            popf = fulls[g][1]["datasets"]["/BunchPopulation/data"]["data"]
            qq = max(abs(1 - x) for x in pop + popf + d2["datasets"]["/BunchPopulation/data"]["data"])
            # with an impedance the kick itself scales with the charge: second contribution of the same order.  Over the 32-step horizon of the thorough tier the two runs
            # renormalise a dozen times each, at different steps: each stays within the drift of the never-renormalised shape, their difference within twice that
            # (a rescaling by 1/Q moves a value by |1/Q-1| <= qq/(1-qq), not by qq)
            qe = qq / (1 - qq) if qq < 0.9 else 10.0
            bound = (2 if imp != "none" else 1) * (TOTAL / 16.0) * (qe + 1e-6) * mx
            res.coverage["worst_drift_bounded_ratio"] = max(res.coverage.get("worst_drift_bounded_ratio", 0), dev / bound)
            if dev > bound * 1.001:
                res.violate("C11/end-state-differs/%s/%s" % (kb, ik), case,
                            "final phase space differs from the uninterrupted run by %.3g > bound %.3g (charge drift %.3g)" % (dev, bound, qq), replay=rp)

    # (b2) the older file layout [records][n][n] (no bunch dimension): "starting from any chosen record loads exactly the stored values"
    import struct
    for n in ns:
        old3 = os.path.join(wd, "old_layout_%d.h5" % n)
        vals = blob(n)
        pl.write_start_h5_rank3(old3, n, vals)
        for sr in (None, 0, 1, 2, -1, -3):
            a = base(n, "none") + ["-i", old3, "-T", 0.125, "-n", 1, "--SavePhaseSpace", 1, "--RenormalizeCharge", -1] + ([] if sr is None else ["--InitialDistStep", sr])
            r = pl.run(exe, a, wd, out="old3_%d_%s.h5" % (n, sr))
            case = "older layout [3][%d][%d], start record %s" % (n, n, sr)
            d = pl.h5(r["h5"]) if r["rc"] == 0 and os.path.exists(r["h5"]) else None
            res.eval(case, pl.chash(case, r["rc"]), trivial=False)
            if d is None or "error" in d:
                res.violate("C11/older-layout/run-failed", case, "rc=%s %s" % (r["rc"], r["log"][-200:]), replay=dict(cmd=r["cmd"]))
                continue
            rec = (2 if sr is None else sr % 3)
            want = [struct.unpack("f", struct.pack("f", struct.unpack("f", struct.pack("f", x))[0] * (1.0 + 0.25 * rec)))[0] for x in vals]
            got, _h = last_ps(d, 0)
            if len(got) != len(want) or any(struct.pack("f", g) != struct.pack("f", w) for g, w in zip(got, want)):
                nbad = sum(1 for g, w in zip(got, want) if struct.pack("f", g) != struct.pack("f", w))
                res.violate("C11/older-layout/loaded-state-differs", case, "the first record of the run differs from record %d of the file in %d of %d cells" % (rec, nbad, len(want)), replay=dict(cmd=r["cmd"]))
            for ext in ("", ".cfg", ".log"):
                try:
                    os.remove(r["h5"] + ext)
                except OSError:
                    pass

    # (b3) a record stored as 64-bit floats (another build, another tool): the values loaded are the stored values (they are single-precision numbers here)
    for n in ns:
        f64 = os.path.join(wd, "f64_%d.h5" % n)
        vals = blob(n)
        pl.write_start_h5_f64(f64, n, vals)
        a = base(n, "none") + ["-i", f64, "-T", 0.125, "-n", 1, "--SavePhaseSpace", 1, "--RenormalizeCharge", -1]
        r = pl.run(exe, a, wd, out="f64_%d_out.h5" % n)
        case = "start file with 64-bit floats, n=%d" % n
        d = pl.h5(r["h5"]) if r["rc"] == 0 and os.path.exists(r["h5"]) else None
        res.eval(case, pl.chash(case, r["rc"]), trivial=False)
        if d is None or "error" in d:
            res.violate("C11/f64-start-file/run-failed", case, "rc=%s %s" % (r["rc"], r["log"][-200:]), replay=dict(cmd=r["cmd"]))
        else:
            got, _h = last_ps(d, 0)
            want = [struct.unpack("f", struct.pack("f", x))[0] for x in vals]
            if len(got) != len(want) or any(struct.pack("f", g) != struct.pack("f", w) for g, w in zip(got, want)):
                res.violate("C11/f64-start-file/loaded-state-differs", case, "the first record of the run is not the stored record", replay=dict(cmd=r["cmd"]))

    # (c) files that cannot be used as a start must be refused with a message, nothing simulated
    good = os.path.join(wd, "good.h5")
    pl.run(exe, base(16, "none") + ["-T", 0.25, "-n", 1, "--SavePhaseSpace", 1], wd, out="good.h5")
    two = os.path.join(wd, "two.h5")
    pl.run(exe, ["-s", 16, "-N", NPER, "--padding", 2, "-G", 0, "-T", 0.25, "-n", 1, "--SavePhaseSpace", 1, "-I", 1e-3, 1e-3], wd, out="two.h5")
    trunc = os.path.join(wd, "trunc.h5")
    with open(good, "rb") as f:
        blobb = f.read()
    with open(trunc, "wb") as f:
        f.write(blobb[:len(blobb) // 3])
    text = os.path.join(wd, "text.h5")
    with open(text, "w") as f:
        f.write("this is not an hdf5 file\n1 2 3\n")
    empty = os.path.join(wd, "empty.h5")
    open(empty, "w").close()
    nops = os.path.join(wd, "nops.h5")
    shutil.copy(trunc, nops)
    norec = os.path.join(wd, "norecords.h5")
    import subprocess
    subprocess.run([pl.build.build_h5json(), "--write-empty", norec, "16"], check=True)
    # good.h5 holds 3 phase-space records (steps 0, 1, 2): a chosen record that does not exist cannot be loaded either - not the record 3 mod 3, not the
    # one some wrapped-around index happens to name
    cases_ref = [("missing", os.path.join(wd, "does_not_exist.h5"), []), ("truncated", trunc, []), ("text", text, []), ("empty", empty, []), ("two-bunch", two, []),
                 ("no-phase-space-records", norec, []), ("record-beyond-the-last", good, ["--InitialDistStep", 3]), ("record-far-beyond-the-last", good, ["--InitialDistStep", 7]),
                 ("record-before-the-first", good, ["--InitialDistStep", -4]), ("record-far-before-the-first", good, ["--InitialDistStep", -1000])]
    for name, path, extra in cases_ref:
        out = "ref_%s.h5" % name
        r = pl.run(exe, base(16, "none") + ["-i", path, "-T", 0.25, "-n", 1] + extra, wd, out=out)
        case = "refusal start=%s" % name
        res.eval(case, pl.chash(case, r["rc"]), trivial=False)
        produced = os.path.exists(os.path.join(wd, out))
        msg = ("rror" in r["log"]) or ("annot" in r["log"]) or ("not" in r["log"].lower() and "exist" in r["log"].lower())
        simulated = "Starting the simulation" in r["log"]
        if r["rc"] < 0 or r["rc"] > 1:
            res.violate("C11/refusal/%s/crash" % name, case, "exit status %s" % r["rc"], replay=dict(cmd=r["cmd"]))
        elif produced or simulated or not msg:
            res.violate("C11/refusal/%s/not-refused" % name, case, "results file produced=%s simulated=%s message=%s; log tail: %s" % (produced, simulated, msg, r["log"][-160:].replace("\n", " | ")), replay=dict(cmd=r["cmd"]))
    res.rule = ("one evaluation = one (configuration, split point, start record): leg 1, leg 2 and the uninterrupted run of the real binary compared; plus the refusal cases; "
                "distinct = hash of case + final phase-space record hash")
    res.bounds_done.append("all %d split points x %d configurations (grid sizes %s x impedance{none,collimator} x RenormalizeCharge{-1,0,3,4}; %d shared-parameter variants: grid shifts, RF model, stencil, phase-space size, alpha1/-f, alpha2, other rings, clamping, padding, FP type) x start records %s; 10 refusal cases (missing, truncated, text, empty, two-bunch, no records, chosen record outside the file)" % (TOTAL - 1, len(groups), ns, len(VARIANTS) - 1, srecs))
    return None


def replay(doc):
    print("re-run:", doc.get("replay"))
    return 1
