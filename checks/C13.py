"""C13 - the saved .cfg reproduces the run (parse -> save -> parse on the real ProgramOptions)"""
from checks import _api
LEVEL = "exploration"


def run(res, tier):
    res.assumptions += [
        "two non-default values per option (one of them needing more than 6 significant digits)",
        "run_anyway and config are not compared: run_anyway cannot influence a run that writes a .cfg (it only matters without an output file), config names the parent file",
        "gui / ForceOpenGLVersion have no compiled getter in this build (OpenGL off)"]
    return _api.run(res, tier, ["C13_cfg"])


replay = _api.replay
