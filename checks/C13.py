"""C13 - the saved .cfg reproduces the run
   (a) API level: parse -> save -> parse on the real ProgramOptions, every getter compared exactly;
   (b) process level: run the real binary, run it again from the .cfg it wrote, compare every dataset and attribute of the two results files bitwise."""
import itertools
import os
import sys

import vlib
from checks import _api
sys.path.insert(0, os.path.join(vlib.VERIF, "proc"))
import pl  # noqa: E402
LEVEL = "exploration"

PBASE = ["--GridSize", 32, "--StepsPerTs", 32, "--rotations", 0.5, "--outstep", 4, "--padding", 2]


def merged(extra):
    """PBASE with the options named in extra removed (an option may be given only once)"""
    given = set(str(x) for x in extra if str(x).startswith("--"))
    out = []
    for i in range(0, len(PBASE), 2):
        if PBASE[i] not in given:
            out += PBASE[i:i + 2]
    return out + list(extra)
# option -> runnable non-default values (argument lists); values with many digits stress the writer's precision
DEV = {
    "alpha0": [["5e-3"], ["1.2345678e-3"]], "alpha1": [["0.01"], ["-0.0234567"]], "alpha2": [["0.5"]],
    "SynchrotronFrequency": [["45000"], ["8123.4561"]], "RevolutionFrequency": [["2.7e6"], ["1234567.9"]], "DampingTime": [["0.001"], ["2.5123456789e-3"]],
    "HarmonicNumber": [["184"]], "InitialDistZoom": [["0.8"], ["1.3456789012"]],
    "BunchCurrent": [["1e-3"], ["1e-3", "0", "2.3456789e-3"], ["1.2345678e-4", "1.2345678e-4"], ["0", "2e-3", "1e-3"], ["1e-3", "0"]], "BendingRadius": [["5.559"], ["1.0000000001"]],
    "BeamEnergy": [["2.5e9"], ["1300000001"]], "BeamEnergySpread": [["1e-3"], ["4.7123456789e-4"]], "Impedance": [["z.dat"]],
    "VacuumGap": [["-0.03"], ["0.0512345678"], ["0"]], "UseCSR": [["false"]], "CollimatorRadius": [["0.002"], ["0.00123456789"]],
    "WallConductivity": [["5.8e7"], ["1412345.678"]], "WallSusceptibility": [["-0.5"]], "CutoffFreq": [["0"], ["1.2345678e10"]],
    "AcceleratingVoltage": [["1.5e6"], ["123456.789012"]], "LinearRF": [["false"]],
    "RFPhaseModAmplitude": [["1"], ["0.2345678901"]], "RFPhaseModFrequency": [["4e4"], ["12345.678901"]],
    "outstep": [["7"], ["1"]], "SavePhaseSpace": [["2"], ["1"]], "tracking": [["t.txt"]], "verbose": [["true"]],
    "StepsPerTs": [["64"], ["21"]], "StepsPerRevolution": [["0.5"], ["0.3141592653"]], "padding": [["3"], ["2.5000001"]], "RoundPadding": [["false"]],
    "PhaseSpaceSize": [["10"], ["14.567891"]], "PhaseSpaceShiftX": [["2"], ["-1.2345678"]], "PhaseSpaceShiftY": [["-3"], ["0.7654321"]],
    "RenormalizeCharge": [["-1"], ["5"]], "FPType": [["1"], ["0"]], "FPTrack": [["0"], ["2"]], "GridSize": [["64"], ["33"]],
    "rotations": [["1.25"], ["0.1234567891"]], "derivation": [["3"]], "InterpolationPoints": [["3"], ["2"]], "InterpolateClamped": [["true"]],
    "InitialDistFile": [["start.h5"]], "InitialDistStep": [["0"]],
}
# options that only act together with another one
COMPANION = {"RFPhaseModFrequency": ["--RFPhaseModAmplitude", "0.5"], "RFPhaseModAmplitude": ["--RFPhaseModFrequency", "30000"], "FPTrack": ["--tracking", "t.txt"], "tracking": ["--FPTrack", "1"],
             "WallSusceptibility": ["--WallConductivity", "5.8e7"], "InitialDistStep": ["--InitialDistFile", "start.h5"]}


def compare(a, b):
    """names of datasets / attributes that differ between two h5json documents"""
    bad = []
    for name in sorted(set(a["datasets"]) | set(b["datasets"])):
        x, y = a["datasets"].get(name), b["datasets"].get(name)
        if name == "/Info/Inovesa_build":
            continue
        if x is None or y is None or x["dims"] != y["dims"] or x.get("rowhash") != y.get("rowhash") or \
                (not x.get("rowhash") and x.get("data") != y.get("data")):
            bad.append(name)
    for name in sorted(set(a["attrs"]) | set(b["attrs"])):
        if name.split("@")[-1] in ("HaissinskiIterations", "InitialDistParam", "RotationType", "SaveSourceMap"):
            continue   # compatibility-only options: recorded as parameters only when a config file is read, never used
        if a["attrs"].get(name) != b["attrs"].get(name):
            bad.append("attribute " + name)
    return bad


def process_level(res, tier):
    exe = pl.build.build_bin("plain")
    wd = pl.workdir("c13p")
    with open(os.path.join(wd, "t.txt"), "w") as f:
        f.write("0.5 0.3\n-1.2 0.8\n")
    with open(os.path.join(wd, "z.dat"), "w") as f:
        for k in range(40):
            f.write("%g %g %g\n" % (k * 1e9, 50 + k, -0.5 * k))
    r = pl.run(exe, merged(["--rotations", 0.25, "--SavePhaseSpace", 1]), wd, out="start.h5")
    if r["rc"] != 0:
        res.violate("C13/process/start-file-run-failed", "start.h5", r["log"][-300:])
        return
    singles = [(o, i, v) for o, vs in DEV.items() for i, v in enumerate(vs)]
    cases = [("default", [])] + [("single %s#%d" % (o, i), ["--" + o] + v + COMPANION.get(o, [])) for o, i, v in singles]
    # the same deviations given through a parent config file instead of the command line
    cfgcases = [("cfg %s#%d" % (o, i), (o, v)) for o, i, v in singles if o not in COMPANION]
    if tier == "thorough":
        names = sorted(DEV)
        for a, b in itertools.combinations(names, 2):
            if COMPANION.get(a, [""])[0] == "--" + b or COMPANION.get(b, [""])[0] == "--" + a:
                continue
            comp = [c for o in (a, b) for c in COMPANION.get(o, [])]
            if ("--" + a) in comp or ("--" + b) in comp:
                continue
            if {a, b} == {"InitialDistFile", "GridSize"} or {a, b} == {"InitialDistStep", "GridSize"}:
                continue     # a start file of another grid size is refused (C11/C17 territory)
            va, vb = DEV[a][-1], DEV[b][0]
            cases.append(("pair %s+%s" % (a, b), ["--" + a] + va + ["--" + b] + vb + comp))
    pl.warm(exe, [merged(["--GridSize", s, "--padding", p] + rp) for s in (32, 64, 33) for p in (2, 3, 2.5000001) for rp in ([], ["--RoundPadding", "false"])], "c13warm")

    def do(job):
        idx, (name, spec) = job
        base = list(pl.BASE)
        extra = spec
        if name.startswith("cfg "):
            o, v = spec
            cp = os.path.join(wd, "parent_%d.cfg" % idx)
            with open(cp, "w") as f:
                for t in v:
                    f.write("%s=%s\n" % (o, t))
            base = ["--config", cp, "--cldev", "0"]
            extra = []
        import subprocess
        oa, ob = os.path.join(wd, "a_%d.h5" % idx), os.path.join(wd, "b_%d.h5" % idx)
        ca = [exe] + base + ["-o", oa] + [str(x) for x in merged(extra)]
        def sub(cmd):
            try:
                return subprocess.run(cmd, cwd=wd, env=vlib.env(), capture_output=True, text=True, errors="replace", timeout=90)
            except subprocess.TimeoutExpired:
                return subprocess.CompletedProcess(cmd, -999, "TIMEOUT after 90 s", "")
        ra = sub(ca)
        cb = [exe, "--config", oa + ".cfg", "-o", ob]
        rb = sub(cb) if ra.returncode == 0 and os.path.exists(oa + ".cfg") else None
        da = pl.h5(oa, maxv=64) if ra.returncode == 0 else None
        db = pl.h5(ob, maxv=64) if rb is not None and rb.returncode == 0 else None
        # second generation: the run is repeated FROM ITS OWN saved .cfg, under the same output name, with one option overridden on the command line
        # (a parameter scan that reuses the file): the .cfg next to the new results must describe the new run
        gen2 = None
        if rb is not None and rb.returncode == 0 and not name.startswith("pair "):
            ovr = ["--outstep", "3"] if "rotations" in name else ["--rotations", "0.75"]
            oc = os.path.join(wd, "c_%d.h5" % idx)
            cc = [exe, "--config", oa + ".cfg", "-o", oa] + ovr
            rc2 = sub(cc)
            cd = [exe, "--config", oa + ".cfg", "-o", oc]
            rd = sub(cd) if rc2.returncode == 0 else None
            dc2 = pl.h5(oa, maxv=64) if rc2.returncode == 0 else None
            dd = pl.h5(oc, maxv=64) if rd is not None and rd.returncode == 0 else None
            gen2 = (" ".join(cc), " ".join(cd), rc2, rd, dc2, dd)
            for suf in ("", ".cfg", ".log"):
                try:
                    os.remove(oc + suf)
                except OSError:
                    pass
        for p in (oa, ob):
            for suf in ("", ".cfg", ".log"):
                try:
                    os.remove(p + suf)
                except OSError:
                    pass
        return name, " ".join(ca), " ".join(cb), ra, rb, da, db, gen2

    unrunnable = []
    ngen2 = 0
    for name, ca, cb, ra, rb, da, db, gen2 in pl.pmap(do, list(enumerate(cases + cfgcases))):
        opt = name.split()[1].split("#")[0] if " " in name else "default"
        rp = dict(cmd=ca, rerun=cb)
        if (ra.returncode != 0 or da is None or "error" in da) and name.startswith("pair "):
            # the combination itself is not a usable invocation (nothing to reproduce): counted, not judged
            unrunnable.append("%s (rc=%s)" % (name, ra.returncode))
            continue
        if ra.returncode != 0 or da is None or "error" in da:
            res.violate("C13/process/original-run-failed/%s" % opt, name, "rc=%s %s" % (ra.returncode, (ra.stdout + ra.stderr)[-200:]), replay=rp)
            continue
        if rb is None or rb.returncode != 0 or db is None or "error" in db:
            res.violate("C13/process/rerun-from-saved-cfg-failed/%s" % opt, name, "rc=%s %s" % (None if rb is None else rb.returncode, "" if rb is None else (rb.stdout + rb.stderr)[-200:]), replay=rp)
            continue
        res.eval("process " + name, pl.chash(name, sorted((k, str(v.get("rowhash"))) for k, v in da["datasets"].items())), trivial=False)
        bad = compare(da, db)
        if bad:
            res.violate("C13/process/rerun-differs/%s" % opt, name, "the run from the saved .cfg differs from the original in: %s" % ", ".join(bad[:6]), replay=rp)
        if gen2 is not None:
            cc, cd, rc2, rd, dc2, dd = gen2
            rp2 = dict(first=ca, cmd=cc, rerun=cd)
            if rc2.returncode != 0 or dc2 is None or "error" in dc2:
                res.violate("C13/process/second-generation/run-from-own-cfg-failed/%s" % opt, name, "rc=%s %s" % (rc2.returncode, (rc2.stdout + rc2.stderr)[-200:]), replay=rp2)
            elif rd is None or rd.returncode != 0 or dd is None or "error" in dd:
                res.violate("C13/process/second-generation/rerun-failed/%s" % opt, name, "rc=%s" % (None if rd is None else rd.returncode), replay=rp2)
            else:
                ngen2 += 1
                res.eval("process gen2 " + name, pl.chash("gen2", name, sorted((k, str(v.get("rowhash"))) for k, v in dc2["datasets"].items())), trivial=False)
                bad2 = compare(dc2, dd)
                if bad2:
                    res.violate("C13/process/second-generation/rerun-differs/%s" % opt, name, "a run started from its own saved .cfg under the same output name with an overriding option: the .cfg left next to the new results does not reproduce them (%s)" % ", ".join(bad2[:6]), replay=rp2)
    res.coverage["process_pairs_whose_original_invocation_does_not_run"] = unrunnable
    res.coverage["second_generation_runs_judged"] = ngen2
    res.bounds_done.append("process level: default + every option singly (%d values, command line and parent config)%s; original run vs run from its saved .cfg, all datasets and attributes bitwise; second generation: rerun from its own .cfg under the same output name with one overriding option, its new .cfg must reproduce it"
                           % (len(singles), " + all pairs of options" if tier == "thorough" else ""))


def run(res, tier):
    res.assumptions += [
        "two non-default values per option (one of them needing more than 6 significant digits)",
        "run_anyway and config are not compared: run_anyway cannot influence a run that writes a .cfg (it only matters without an output file), config names the parent file",
        "gui / ForceOpenGLVersion have no compiled getter in this build (OpenGL off)",
        "process level: RF noise (RFAmplitudeSpread / RFPhaseSpread > 0) is left out of the bitwise comparison - its generator is seeded from the system's random device; "
        "particle tracking is run with a deterministic model (FPTrack 0-2; model 3 draws from the random device); the rerun is given -o (a new file name) on top of the saved .cfg; /Info/Inovesa_build is not compared"]
    confirm = _api.run(res, tier, ["C13_cfg"])
    process_level(res, tier)

    def conf(v):
        if (v.get("replay") or {}).get("harness"):
            return confirm(v)
        return True
    return conf


def replay(doc):
    rp = doc.get("replay") or {}
    if rp.get("harness"):
        return _api.replay(doc)
    print("re-run:", rp)
    return 1
