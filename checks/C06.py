"""C06 - wake potential = discrete convolution with the impedance (basis-complete per configuration)"""
from checks import _api
LEVEL = "exploration"


def run(res, tier):
    res.assumptions += [
        "buckets do not overlap and the train fits the padded length (max bucket*spacing + n <= N)",
        "the single top frequency bin floor(N/2) may or may not be used (the statement only says the non-negative-frequency half is used)",
        "FFTW wisdom for every transform length is created in a sequential warm-up pass first"]
    return _api.run(res, tier, ["C06_wake"], warm=True)


replay = _api.replay
