"""C02 - whole-cell shifts lossless, fractional shifts reproduce polynomials"""
from checks import _api
LEVEL = "exploration"


def run(res, tier):
    res.assumptions += [
        "direction convention pinned to the code: a positive offset k makes out[x] = in[x+k] (cross-checked against applyTo by C15)",
        "polynomial part: interior = destination cells whose interpolation stencil lies inside the grid; offsets k+f, k in -2..2, f on a dyadic lattice plus extreme fractions",
        "OpenCL paths compiled out"]
    c1 = _api.run(res, tier, ["W_weights"], extra=["--prop", "C02"], blocks=(1,))
    c2 = _api.run(res, tier, ["C02_shift"])
    return lambda v: (c1(v) if (v.get("replay") or {}).get("harness") == "W_weights" else c2(v))


replay = _api.replay
