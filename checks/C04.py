"""C04 - relaxation to the unit Gaussian (API level; process level through /BunchLength, /EnergySpread)"""
import math
import os
import sys

import vlib
from checks import _api
sys.path.insert(0, os.path.join(vlib.VERIF, "proc"))
import pl  # noqa: E402

LEVEL = "exploration"


GEO = [[], ["--PhaseSpaceSize", 10], ["--PhaseSpaceShiftX", 1], ["--PhaseSpaceShiftY", 3, "--PhaseSpaceShiftX", -2], ["-I", 1e-3, 0, 2e-3],
       # options that concern something else (how tracked particles are moved, the RF model, the interpolation order, the output): the limit is the same
       ["--FPTrack", 0], ["--FPTrack", 1], ["--FPTrack", 2], ["--LinearRF", "false"], ["--InterpolationPoints", 3], ["--SavePhaseSpace", 2],
       ["--RenormalizeCharge", 7], ["--InterpolateClamped", "true"], ["--CutoffFreq", 0],
       # the synchrotron frequency given (it overrides the momentum compaction factor) at another value, alone, with the sinusoidal RF, and next to an alpha0 that is then not in force
       ["-f", 30000.0], ["-f", 30000.0, "--LinearRF", "false"], ["--alpha0", 2e-3, "--LinearRF", "false"], ["--alpha0", 8e-3],
       # the initial distribution read from a results-type file (a Gaussian of the requested size written by the check), with either RF model
       ["@startfile"], ["@startfile", "--LinearRF", "false"]]


def process_level(res, tier):
    exe = pl.build.build_bin("plain")
    wd = pl.workdir("c04")
    cases = []
    for n in ([48, 64] if vlib.wide(tier) else [48]):
        for stencil in (3, 4):
            for zoom in ((0.7, 1.0, 1.4) if vlib.wide(tier) else (0.7, 1.4)):
                for fptype in (3, 1):
                    cases.append((n, stencil, zoom, fptype, 0))
        # grid geometry: another phase-space size, an odd grid, axes shifted (the limit is a property of the physics, not of where the grid sits)
        for geo in range(1, len(GEO)):      # 4: a train (two bunches and an empty bucket) - every bunch relaxes like a single one
            # the explicit scheme's stable range: per-step decrement over cell^2 at most 1/2 (outside it the program produces NaN - not a C04 matter)
            if (2.0 / (2.0 * 64)) / (((10.0 if geo == 1 else 12.0) / (n - 1)) ** 2) > 0.5:
                continue
            for stencil in (3, 4):
                cases.append((n, stencil, 1.4, 3, geo))
        cases.append((n, 4, 1.4, 1, 4))
        # neither damping nor diffusion, said in the two ways the program offers: FPType 0, and a damping time of exactly 0
        for zoom in (0.7, 1.4):
            cases.append((n, 4, zoom, 0, 0))
            cases.append((n, 4, zoom, -1, 0))
    steps, td = 64, 2.0    # damping time in synchrotron periods
    fs = 45000.0

    def do(c):
        n, stencil, zoom, fptype, geo = c
        T = 8 * td if fptype == 3 else (8.0 if fptype <= 0 else 0.4 * td)
        n += (1 if geo == 2 else 0)
        fsc = GEO[geo][GEO[geo].index("-f") + 1] if "-f" in GEO[geo] else fs
        gopts = [x for x in GEO[geo] if x != "@startfile"]
        startf = None
        if "@startfile" in GEO[geo]:
            startf = os.path.join(wd, "start_%d_%d_%g_%d_%d.h5" % c)
            d_ = 12.0 / (n - 1)
            vals = [math.exp(-0.5 * (((-6 + x * d_) / zoom) ** 2 + ((-6 + y * d_) / zoom) ** 2)) / (2 * math.pi * zoom * zoom) for x in range(n) for y in range(n)]
            pl.write_start_h5(startf, n, vals)
            gopts += ["-i", startf]
        a = gopts + ["-s", n, "-N", steps, "-T", T, "-n", 8, "-G", 0] + ([] if "-f" in GEO[geo] else ["-f", fs]) + ["-d", (td / fsc if fptype >= 0 else 0), "--derivation", stencil, "--FPType", (fptype if fptype >= 0 else 3),
             "--InitialDistZoom", zoom, "--padding", 2]
        r = pl.run(exe, a, wd, out="o_%d_%d_%g_%d_%d.h5" % c)
        doc = pl.h5(r["h5"], maxv=20000) if r["rc"] == 0 else None
        for f in (r["h5"], r["h5"] + ".cfg", r["h5"] + ".log", startf):
            try:
                os.remove(f)
            except (OSError, TypeError):
                pass
        return c, r, doc
    for c, r, doc in pl.pmap(do, cases):
        n, stencil, zoom, fptype, geo = c
        case = "process n=%d stencil=%d zoom=%g fptype=%s" % (c[0], c[1], c[2], c[3] if c[3] >= 0 else "3,DampingTime=0") + ((" geometry=" + "_".join(str(x) for x in GEO[geo])) if geo else "")
        n += (1 if geo == 2 else 0)
        rp = dict(cmd=r["cmd"])
        if doc is None or "error" in doc:
            res.violate("C04/process/run-failed", case, "rc=%s %s" % (r["rc"], r["log"][-200:]), replay=rp)
            continue
        nbunch = doc["datasets"]["/BunchLength/data"]["dims"][1]
        res.eval(case, pl.chash(case, doc["datasets"]["/BunchLength/data"]["data"], doc["datasets"]["/EnergySpread/data"]["data"]), trivial=False)
        if geo == 4 and nbunch != 2:
            res.violate("C04/process/bunch-columns", case, "expected 2 bunch columns, found %d" % nbunch, replay=rp)
            continue
        for bunch in range(nbunch):
            bl = doc["datasets"]["/BunchLength/data"]["data"][bunch::nbunch]
            es = doc["datasets"]["/EnergySpread/data"]["data"][bunch::nbunch]
            bcase = case + (" bunch=%d" % bunch if nbunch > 1 else "")
            d = (10.0 if geo == 1 else 12.0) / (n - 1)
            # "from any initial size": the run has to start from the size it was asked to start from (or the convergence below is the same run many times)
            if not (abs(bl[0] - zoom) <= 0.03 * zoom and abs(es[0] - zoom) <= 0.03 * zoom):
                res.violate("C04/process/initial-size-is-not-the-requested-one", bcase, "InitialDistZoom %g: the first record has bunch length %.5f, energy spread %.5f" % (zoom, bl[0], es[0]), replay=rp)
                continue
            if fptype == 3:
                k = steps // 8
                mq, mp = sum(bl[-k:]) / k, sum(es[-k:]) / k
                # "to within the discretisation error of the grid": a second-order error with the constant each stencil shows on the unchanged tree, half as much again
                # (3-point stencil: the limit lies 0.23-0.32 d^2 below 1; 4-point stencil: within 0.1 d^2; the bunch length sits another 0.004-0.006 lower, the
                #  splitting error of kick and drift at 64 steps per period) - an error that shrinks like d instead of d^2 (1/N = d/12) is outside it on these grids
                tol = (0.004 + 0.30 * d * d) if stencil == 3 else (0.008 + 0.06 * d * d)
                if os.environ.get("VERIF_DEBUG"):
                    print("DBG n=%d stencil=%d geo=%d zoom=%g d2=%.4f dq=%+.5f dp=%+.5f" % (n, stencil, geo, zoom, d * d, mq - 1, mp - 1), file=sys.stderr)
                res.coverage["worst_process_limit_over_tol"] = max(res.coverage.get("worst_process_limit_over_tol", 0), max(abs(mq - 1), abs(mp - 1)) / tol)
                if not (abs(mq - 1) <= tol and abs(mp - 1) <= tol):
                    res.violate("C04/process/full/stencil=%d/wrong-limit" % stencil, bcase, "after 8 damping times bunch length %.5f, energy spread %.5f (tolerance %.4f)" % (mq, mp, tol), replay=rp)
            elif fptype <= 0:
                s2 = [a * a + b * b for a, b in zip(bl, es)]
                drift = max(abs(x - s2[0]) for x in s2)
                res.coverage["worst_process_none_drift_over_tol"] = max(res.coverage.get("worst_process_none_drift_over_tol", 0), drift / 0.05)
                if not (drift <= 0.05):
                    res.violate("C04/process/none/%s/does-not-stay-put" % ("FPType=0" if fptype == 0 else "DampingTime=0"), bcase,
                                "sigma_q^2+sigma_p^2 moves from %.5f by up to %.5f over 8 periods with damping and diffusion switched off" % (s2[0], drift), replay=rp)
            else:
                s2 = [a * a + b * b for a, b in zip(bl, es)]
                for i in range(1, len(s2)):
                    if not (s2[i] <= s2[i - 1] + 2e-6):
                        res.violate("C04/process/damping-only/stencil=%d/not-monotonic" % stencil, bcase, "record %d: sigma_q^2+sigma_p^2 grows from %.7f to %.7f" % (i, s2[i - 1], s2[i]), replay=rp)
                        break
    # a grid of more than 256 cells (384): too large for a run to the limit on every change (the stable range of the explicit scheme forces a long damping time), so the
    # statement's other half is judged - a distribution at the natural size stays there, one below it moves towards 1 and never further away than it started
    big = []
    for zoom in (1.0, 0.8):
        big.append(("-s 384 zoom=%g" % zoom, zoom, ["-s", 384, "-N", 100, "-T", 20, "-n", 100, "-G", 0, "-f", fs, "-d", 83.0 / fs, "--InitialDistZoom", zoom, "--padding", 2]))

    def dobig(b):
        name, zoom, a = b
        r = pl.run(exe, a, wd, out="big_%g.h5" % zoom, timeout=900)
        doc = pl.h5(r["h5"], maxv=20000) if r["rc"] == 0 else None
        for f in (r["h5"], r["h5"] + ".cfg", r["h5"] + ".log"):
            try:
                os.remove(f)
            except OSError:
                pass
        return b, r, doc
    for (name, zoom, a), r, doc in pl.pmap(dobig, big):
        case = "process " + name + " (100 steps per period, damping time 83 periods, 20 periods)"
        rp = dict(cmd=r["cmd"])
        if doc is None or "error" in doc:
            res.violate("C04/process/run-failed", case, "rc=%s %s" % (r["rc"], r["log"][-200:]), replay=rp)
            continue
        bl = doc["datasets"]["/BunchLength/data"]["data"]
        es = doc["datasets"]["/EnergySpread/data"]["data"]
        res.eval(case, pl.chash(case, bl, es), trivial=False)
        for nm, series in (("bunch length", bl), ("energy spread", es)):
            s0 = series[0]
            worst = max(abs(x - 1) for x in series)
            ok = worst <= abs(s0 - 1) + 0.006      # (the kick-drift splitting makes length and spread beat at the per-mille level)
            if zoom != 1.0:
                ok = ok and abs(series[-1] - 1) < abs(s0 - 1) - 0.03      # 0.8 -> 0.86 after 20 of 83 periods: it must have moved towards 1
            if not ok:
                res.violate("C04/process/large-grid/does-not-approach-1", case, "%s starts at %.4f, ends at %.4f, is at most %.4f away from 1 on the way" % (nm, s0, series[-1], worst), replay=rp)
    res.bounds_done.append("process level: %d runs of the real binary (-G 0): full FP limit after 8 damping times, damping-only monotonicity; 2 runs on a 384-cell grid" % len(cases))


def run(res, tier):
    res.assumptions += [
        "explicit scheme within its stable range (e1/cell^2 <= 1/2); starts resolved by the grid (sigma >= 2.5 cells) and inside it",
        "sizes are compared as averages over one synchrotron period (the kick-drift splitting makes bunch length and energy spread beat at the per-mille level)",
        "with rotation the monotone quantity is sigma_q^2 + sigma_p^2 (the rotation conserves it, damping/diffusion act on the energy axis only)",
        "the damping rate itself is not stated by the property and not tested",
        "FPType none: sizes stay put up to the numerical diffusion of the interpolation (variance sum within 0.05 over at most 4 periods)"]
    c = _api.run(res, tier, ["C04_relax"])
    process_level(res, tier)
    return c


replay = _api.replay
