"""C05 - the stationary bunch satisfies the Haissinski equation with its own (recorded) wake - process level"""
import math
import os
import sys

import vlib
sys.path.insert(0, os.path.join(vlib.VERIF, "proc"))
import pl  # noqa: E402

LEVEL = "exploration"
FS = 45000.0
FREV = 9e6

IMPS = {
    "collimator": ["-G", 0.03, "--UseCSR", "false", "--CollimatorRadius", 0.002],
    "wall": ["-G", 0.03, "--UseCSR", "false", "--WallConductivity", 1.4e6],
    "plates": ["-G", 0.03],
    "freespace": ["-G", -0.03],
}
# bunch currents (A) per impedance, chosen so that the measured distortion D spans mild .. order one
CURRENTS = {"collimator": [4e-4, 2e-3, 5e-3], "wall": [1e-3, 4e-3, 1e-2], "plates": [3e-4, 1e-3, 2.5e-3], "freespace": [3e-5, 1e-4, 2.5e-4]}


def analyse(doc):
    z = doc["datasets"]["/Info/AxisValues_z"]["data"]
    e = doc["datasets"]["/Info/AxisValues_E"]["data"]
    n = len(z)
    bp = pl.rows(doc, "/BunchProfile/data")
    wp = pl.rows(doc, "/WakePotential/data")
    es = doc["datasets"]["/EnergySpread/data"]["data"]
    if not bp or not wp:
        return None      # no wake potential recorded at all
    rho, W = bp[-1], wp[-1]
    dq, dp = z[1] - z[0], e[1] - e[0]
    steps = doc["attrs"]["/Info/Parameters@StepsPerTs"]
    spr = doc["attrs"].get("/Info/Parameters@StepsPerRevolution", 0)
    fs = doc["attrs"]["/Info/Parameters@SynchrotronFrequency"]
    frev = doc["attrs"]["/Info/Parameters@RevolutionFrequency"]
    if spr and spr > 0:
        steps = spr * frev / fs
    a = 2 * math.pi / steps
    integ = [0.0]
    for i in range(1, n):
        integ.append(integ[-1] + 0.5 * (W[i] + W[i - 1]) * dp * dq)
    res, dist = [], []
    for i in range(n):
        if abs(z[i]) <= 2.0 and rho[i] > 0:
            res.append(math.log(rho[i]) + z[i] ** 2 / 2 - integ[i] / a)
            dist.append(integ[i] / a)
    # stationarity: last three records
    mx = max(rho)
    stat = max(max(abs(x - y) for x, y in zip(bp[-1], bp[-k])) for k in (2, 3)) / mx
    return dict(residual=max(res) - min(res), D=max(dist) - min(dist), stationarity=stat, sE=es[-1], a=a)


def run(res, tier):
    res.assumptions += [
        "W is the RECORDED wake potential (what the wake kick applies): the check decides sign and strength of the collective kick relative to RF focusing and the step angle, "
        "not the wake's relation to the impedance (C06, C10)",
        "finite horizon of 10 damping times; impedances far below threshold: a case that has not become stationary by then (profile change > 2e-3 of the peak between the last records) is reported under its own key; cases with D < 0.05 are run and judged but counted as trivial",
        "bound on the residual spread: 0.003 + 2.5*e1 + 0.02*D with e1 the per-step damping decrement (floor calibrated on the unchanged tree: 1.0-1.25*e1 + 0.002*D, safety factor 2-3; a sign error gives about 2D, a factor 2 in strength about D); explicit scheme within its stable range e1/cell^2 <= 1/2"]
    exe = pl.build.build_bin("plain")
    wd = pl.workdir("c05")
    cases = []
    ns = [64, 128] if vlib.wide(tier) else [64]
    for imp in IMPS:
        for ci, cur in enumerate(CURRENTS[imp]):
            for n in ns:
                for mode in (("Ts", 128), ("rev", 128), ("Ts", 64)) if vlib.wide(tier) else (("Ts", 128), ("rev", 128)):
                    for td in ((2.0, 4.0) if vlib.wide(tier) else (2.0,)):
                        for zoom in ((0.8, 1.2) if vlib.wide(tier) else (1.2,)):
                            if tier == "quick" and ci != 1 and mode[0] == "rev":
                                continue
                            d2 = (12.0 / (n - 1)) ** 2
                            if 2.0 / (td * mode[1]) / d2 > 0.5:
                                continue      # outside the explicit Fokker-Planck scheme's stable range (e1/cell^2 <= 1/2)
                            cases.append((imp, cur, n, mode, td, zoom, ()))
    pl.warm(exe, [["-s", n, "-N", 8, "-T", 0.125, "--padding", 4] + IMPS["collimator"] for n in ns + [65]], "c05warm")
    # single deviations of the numerical options from the base run (collimator, middle current): each must leave the relation intact
    DEV = [["--InterpolateClamped", "true"], ["--InterpolationPoints", 3], ["--derivation", 3], ["--PhaseSpaceSize", 10], ["--PhaseSpaceShiftX", 2], ["--PhaseSpaceShiftY", -2], ["--alpha0", 3.5e-3],
           ["--RenormalizeCharge", 5], ["--RenormalizeCharge", 1], ["--LinearRF", "false"], ["--padding", 2], ["--InterpolationPoints", 3, "--derivation", 3],
           ["--RoundPadding", "false", "--padding", 3.3], ["--FPTrack", 0], ["--InterpolateClamped", "true", "--InterpolationPoints", 3],
           # a large synchronous phase (radiation loss a sizeable fraction of the RF voltage: 18 and 29 degrees), both RF models
           # (linear RF: with the sinusoidal voltage the potential well itself is no longer q^2/2 there - its cubic term tan(phi_s) x phase-per-length x q^3/6 is 0.06 at
           # q = 2 - and the relation as stated does not apply)
           ["--AcceleratingVoltage", 1.5e5], ["--BeamEnergy", 2.2e9, "--AcceleratingVoltage", 0.8e6], ["--HarmonicNumber", 184, "--RevolutionFrequency", 2.7e6],
           # the RF system with its noise / modulation machinery switched on at amplitudes without any physical effect (the dynamic RF map instead of the static one)
           ["--RFPhaseModAmplitude", 0.01, "--RFPhaseModFrequency", 1e6], ["--RFAmplitudeSpread", 1e-9], ["--RFPhaseSpread", 1e-7, "--LinearRF", "false"]]
    devs = DEV if vlib.wide(tier) else DEV[:7]
    for dv in devs:
        cases.append(("collimator", CURRENTS["collimator"][1], 64, ("Ts", 128), 2.0, 1.2, tuple(dv)))
    # an odd grid size (every impedance once in the thorough tier)
    for imp in (list(IMPS) if vlib.wide(tier) else ["collimator"]):
        cases.append((imp, CURRENTS[imp][1], 65, ("Ts", 128), 2.0, 1.2, ()))
    # many steps per period (the program's default is 1000): the wake changes very little from step to step; start far from equilibrium
    for imp in (("collimator", "wall") if vlib.wide(tier) else ("collimator",)):
        cases.append((imp, CURRENTS[imp][1], 64, ("Ts", 1000), 2.0, 2.0, ()))
        if vlib.wide(tier):
            cases.append((imp, CURRENTS[imp][1], 64, ("Ts", 512), 2.0, 0.6, ()))

    # few steps per period on a fine grid with an order-one distortion: the wake kick reaches one to two CELLS per step in the core
    for cur in (6e-3, 15e-3):
        cases.append(("collimator", cur, 128, ("Ts", 24), 40.5, 1.2, ()))

    def do(c):
        imp, cur, n, (mode, steps), td, zoom, dev = c
        a = ["-s", n, "-T", 10 * td, "-n", steps // 2, "-f", FS, "-d", td / FS, "-I", cur, "--InitialDistZoom", zoom] + (["--padding", 4] if "--padding" not in dev else []) + IMPS[imp] + list(dev)
        if mode == "Ts":
            a += ["-N", steps]
        else:
            a += ["--StepsPerRevolution", steps * FS / FREV, "-N", 1000]
        tag = "%s_%g_%d_%s%d_%g_%g_%s" % (imp, cur, n, mode, steps, td, zoom, "_".join(str(x).strip("-") for x in dev))
        r = pl.run(exe, a, wd, out="o_%s.h5" % tag, timeout=600)
        doc = pl.h5(r["h5"], maxv=2000000) if r["rc"] == 0 else None
        for f in (r["h5"], r["h5"] + ".cfg", r["h5"] + ".log"):
            try:
                os.remove(f)
            except OSError:
                pass
        return c, r, doc

    table = []
    for c, r, doc in pl.pmap(do, cases):
        imp, cur, n, (mode, steps), td, zoom, dev = c
        case = "impedance=%s current=%g n=%d steps=%d(per %s) Td=%g zoom=%g%s" % (imp, cur, n, steps, mode, td, zoom, (" deviation=" + " ".join(map(str, dev))) if dev else "")
        rp = dict(cmd=r["cmd"])
        if doc is None or "error" in doc or "/WakePotential/data" not in doc.get("datasets", {}):
            res.violate("C05/run-failed", case, "rc=%s %s" % (r["rc"], r["log"][-200:]), replay=rp)
            continue
        m = analyse(doc)
        if m is None:
            res.violate("C05/%s/no-wake-recorded" % imp, case, "the run with an impedance selected recorded no wake potential", replay=rp)
            continue
        table.append((case, m))
        trivial = m["D"] < 0.05
        res.eval(case, pl.chash(case, m["residual"], m["D"]), trivial=trivial)
        key = "C05/%s/%s" % (imp, "StepsPerRevolution" if mode == "rev" else "StepsPerTs")
        if not (m["residual"] == m["residual"]) or not (m["sE"] == m["sE"]):
            res.violate(key + "/non-finite", case, str(m), replay=rp)
            continue
        if not (m["stationarity"] <= 2e-3):
            # every case of the lattice is a weak impedance far below threshold (D <= 1) with damping on: relaxation within 10 damping times is
            # what "after relaxation from any start" presupposes (unchanged tree: all cases stationary to 5e-4). A run that does not settle is reported.
            res.coverage.setdefault("not_stationary_cases", []).append(case)
            res.violate(key + "/not-stationary", case, "profile still changes by %.3g of its peak between the last records after 10 damping times (energy spread %.4f, residual %.3f)" % (m["stationarity"], m["sE"], m["residual"]), replay=rp)
            continue
        d = 12.0 / (n - 1)
        e1 = 2.0 / (td * steps)
        # the 3-point derivative stencil has a larger discretisation error of the equilibrium width (C04: up to 0.45 cell^2 on sigma,
        # i.e. up to 4*0.45 cell^2 on q^2/2 at |q| = 2); measured 0.85 cell^2
        three = "--derivation" in dev and dev[dev.index("--derivation") + 1] == 3
        bound = 0.003 + 2.5 * e1 + 0.02 * m["D"] + (1.8 * d * d if three else 0)
        res.coverage["worst_residual_over_bound"] = max(res.coverage.get("worst_residual_over_bound", 0), m["residual"] / bound)
        if m["residual"] > bound:
            res.violate(key + "/haissinski-residual", case, "residual spread %.4f > bound %.4f (wake term D = %.3f, energy spread %.4f)" % (m["residual"], bound, m["D"], m["sE"]), replay=rp)
        # (a coarse time step leaves a splitting error of the order of the squared step angle in the widths: 0.9 % at 24 steps per period)
        if abs(m["sE"] - 1) > 0.003 + (0.45 if three else 0.1) * d * d + m["a"] ** 2 / 6:
            res.violate(key + "/energy-spread", case, "energy spread %.5f in the stationary state" % m["sE"], replay=rp)
    res.coverage["table"] = [dict(case=c, residual=round(m["residual"], 4), D=round(m["D"], 3), sE=round(m["sE"], 4), stationarity=float("%.2g" % m["stationarity"])) for c, m in table][-70:]
    res.rule = ("one evaluation = one run of the real binary to stationarity (10 damping times) and the Haissinski residual of its last record; "
                "lattice: impedance x current x grid x steps (per synchrotron period / per revolution) x damping time x start zoom; non-trivial = D >= 0.05")
    res.bounds_done.append("%d runs" % len(cases))
    return None


def replay(doc):
    print("re-run:", doc.get("replay"))
    return 1
