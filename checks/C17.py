"""C17 - no configuration or input file makes the program touch memory it does not own.
Fault enumeration on the sanitizer build of the real binary (ASan + UBSan incl. float-cast-overflow, -O0):
deviation bounding (1 then 2 parameter changes from a valid tiny run) over the configuration domain and token-grammar
enumeration of the three kinds of input file; a valgrind subset (uninitialised values) on an unsanitized -O1 build."""
import itertools
import os
import re
import shutil
import subprocess
import sys

import vlib
sys.path.insert(0, os.path.join(vlib.VERIF, "proc"))
import pl  # noqa: E402

LEVEL = "fault_enumeration"
BASE = {"GridSize": 8, "StepsPerTs": 8, "rotations": 0.25, "outstep": 1, "SavePhaseSpace": 1, "padding": 2, "VacuumGap": 0.03, "UseCSR": "false",
        "CollimatorRadius": 0.002, "DampingTime": 0.002}
# the documented domain: each axis lists the alternatives to the base value (files are referred to by a tag resolved in mkfiles)
AXES = {
    "GridSize": [9, 16, 17],
    "InterpolationPoints": [1, 2, 3],
    "derivation": [3],
    "FPType": [0, 1, 2],
    "tracking": ["@track_inside|FPTrack=3", "@track_edges|FPTrack=3", "@track_edges|FPTrack=1", "@track_edges|FPTrack=2", "@track_outside|FPTrack=0", "@track_inside|FPTrack=1"],
    "LinearRF": ["false"],
    "RFmod": ["RFPhaseModAmplitude=1|RFPhaseModFrequency=40000", "RFPhaseSpread=0.1", "RFAmplitudeSpread=0.001",
              # both RF models with modulation / noise over more than one synchrotron period (the modulation queue must cover every step)
              "RFPhaseSpread=0.1|rotations=1.5", "RFPhaseSpread=0.1|LinearRF=false|rotations=1.5", "RFPhaseModAmplitude=1|RFPhaseModFrequency=40000|LinearRF=false|rotations=2.25",
              "RFAmplitudeSpread=0.3|LinearRF=false|rotations=1.25|StepsPerTs=4"],
    "PhaseSpaceShiftX": [2, -3, 2.5],
    "PhaseSpaceShiftY": [2, -3],
    "StepsPerTs": [1, 2, 4, 50],
    "BunchCurrent": [],   # filled below: filling patterns x bucket-spacing lattice x RoundPadding
    # padding factors with and without rounding to a power of two (odd, even, non-integral padded lengths: 8*2.1 -> 17, 8*2.6 -> 21, 8*2.5 = 20)
    "padding": [1, 1.5, 3, 2.1, 2.5, "1.5|RoundPadding=false", "3|RoundPadding=false", "2.1|RoundPadding=false", "2.5|RoundPadding=false", "2.6|RoundPadding=false", "4.1|RoundPadding=false"],
    "RoundPadding": ["false"],
    "impedance": ["VacuumGap=0", "VacuumGap=-0.03", "VacuumGap=0.03|UseCSR=true", "WallConductivity=1.4e6", "Impedance=@z_long", "Impedance=@z_equal", "Impedance=@z_short", "Impedance=@z_empty",
                  # the table as the only contribution (no pipe at all)
                  "Impedance=@z_long|VacuumGap=0", "Impedance=@z_equal|VacuumGap=0", "Impedance=@z_short|VacuumGap=0", "Impedance=@z_empty|VacuumGap=0"],
    "InitialDistFile": ["@start_txt", "@start_h5_same", "@start_h5_other", "@start_h5_two", "@start_h5_trunc", "@start_txt_outside",
                        "@start_h5_f64", "@start_h5_norecords", "@start_h5_rank0", "@start_h5_rank1", "@start_h5_rank2", "@start_h5_rank5",
                        "@start_h5_same|InitialDistStep=0", "@start_h5_same|InitialDistStep=7", "@start_h5_same|InitialDistStep=-9", "@start_h5_same|InitialDistStep=-2"],
    "RenormalizeCharge": [-1, 3],
    "outstep": [0, 3],
    "SavePhaseSpace": [0, 2],
    "InitialDistZoom": [0.5, 3],
    "rotations": [0, 0.125, 1.0],
    # kick amplitudes up to beyond the grid: wake kicks (strong currents on a resistive impedance), RF kicks and drifts of many cells per step
    "kick": ["BunchCurrent=1", "BunchCurrent=1000", "BunchCurrent=1e6|CollimatorRadius=0.0005", "StepsPerTs=1|alpha0=0.5", "alpha0=10", "alpha1=50", "alpha2=-1000",
             "SynchrotronFrequency=4e6", "LinearRF=false|AcceleratingVoltage=1e9", "RFPhaseModAmplitude=30|RFPhaseModFrequency=1e5", "RFAmplitudeSpread=10",
             "BunchCurrent=1|tracking=@track_edges|FPTrack=1", "alpha0=10|tracking=@track_edges|FPTrack=3",
             # four steps per synchrotron period: the linear RF kick is tan(pi/2) (-2.3e7 in single precision) times the distance from the centre - 1.5e9 cells on a
             # 128 grid, 2.9e9 (beyond the range of a 32-bit integer) on the program's default 256 grid
             "GridSize=128|StepsPerTs=4|rotations=0.5", "GridSize=256|StepsPerTs=4|rotations=0.5", "GridSize=256|StepsPerTs=4|rotations=0.5|tracking=@track_inside|FPTrack=1"],
}


# bucket spacing in phase spaces = 1.39 * 9e5 / fs : lattice 1.39, 1.097, 1.06, 1.035, 1.0008
for _pat in ("1e-3 1e-3", "1e-3 0 1e-3", "1e-3 1e-3 0 1e-3 1e-3", "1e-3 1e-3 1e-3 1e-3 1e-3"):
    for _fs in (900000, 1140000, 1180000, 1208700, 1250000):
        # ... at the base padding 2, without rounding, without padding, at the program's default padding 8 and at a long non-rounded padding
        for _rp in ("", "|RoundPadding=false", "|RoundPadding=false|padding=1", "|padding=8", "|RoundPadding=false|padding=5.3"):
            AXES["BunchCurrent"].append("%s|SynchrotronFrequency=%d%s" % (_pat, _fs, _rp))
# trains of which a single bucket is filled (first, last, in the middle): one bunch, but the fields are as long as the train
for _pat in ("1e-3 0", "0 1e-3", "0 1e-3 0", "1e-3 0 0 0"):
    for _fs in (900000, 1250000):
        for _rp in ("", "|RoundPadding=false", "|padding=8"):
            AXES["BunchCurrent"].append("%s|SynchrotronFrequency=%d%s" % (_pat, _fs, _rp))


def mkfiles(wd, exe_plain):
    F = {}

    def w(name, text):
        p = os.path.join(wd, name)
        with open(p, "w") as f:
            f.write(text)
        F[name.split(".")[0]] = p
        return p
    w("track_inside.txt", "0.5 0.3\n-1.2 0.8\n2.0 -1.5\n")
    w("track_edges.txt", "-6 -6\n6 6\n-6 6\n6 -6\n0 6\n0 -6\n5.999 -5.999\n")
    w("track_outside.txt", "100 -100\n-7 0\n0 1e9\n")
    w("z_long.dat", "".join("%d %g %g\n" % (i, 10 + i % 3, (i % 5) - 2) for i in range(200)))
    w("z_equal.dat", "".join("%d %g %g\n" % (i, 10 + i % 3, (i % 5) - 2) for i in range(16)))
    w("z_short.dat", "".join("%d %g %g\n" % (i, 10 + i % 3, (i % 5) - 2) for i in range(5)))
    w("z_empty.dat", "")
    w("start_txt.txt", "".join("%g %g\n" % ((i % 7 - 3) * 0.7, (i % 5 - 2) * 0.9) for i in range(40)))
    w("start_txt_outside.txt", "100 100\n-50 0\n0.5 0.5\n")
    F["start_txt"] = F["start_txt"]
    for tag, args in (("start_h5_same", ["-s", 8]), ("start_h5_other", ["-s", 12]), ("start_h5_two", ["-s", 8, "-f", 900000, "-I", 1e-3, 1e-3])):
        r = pl.run(exe_plain, args + ["-N", 8, "-T", 0.25, "-n", 1, "--SavePhaseSpace", 1, "--padding", 2, "-G", 0], wd, out=tag + ".h5")
        F[tag] = r["h5"]
    # results files whose /PhaseSpace/data is not what a results file holds: no record at all, or another rank (a scalar, a vector, a single matrix, five dimensions)
    h5j = pl.build.build_h5json()
    F["start_h5_norecords"] = os.path.join(wd, "start_h5_norecords.h5")
    subprocess.run([h5j, "--write-empty", F["start_h5_norecords"], "8"], check=True)
    for rk in (0, 1, 2, 5):
        F["start_h5_rank%d" % rk] = os.path.join(wd, "start_h5_rank%d.h5" % rk)
        subprocess.run([h5j, "--write-rank", F["start_h5_rank%d" % rk], "8", str(rk)], check=True)
    # a proper record stored as 64-bit floats
    import array
    F["start_h5_f64"] = os.path.join(wd, "start_h5_f64.h5")
    with open(F["start_h5_f64"] + ".raw", "wb") as f:
        array.array("f", [0.01 * ((i * 7) % 13) for i in range(64)]).tofile(f)
    subprocess.run([h5j, "--write64", F["start_h5_f64"], "8", F["start_h5_f64"] + ".raw"], check=True)
    with open(F["start_h5_same"], "rb") as f:
        b = f.read()
    p = os.path.join(wd, "start_h5_trunc.h5")
    with open(p, "wb") as f:
        f.write(b[:len(b) // 3])
    F["start_h5_trunc"] = p
    return F


def to_args(cfg, F):
    """cfg: dict option -> value; composite values 'a=b|c=d' expand to several options; '@tag' -> file path"""
    flat = {}
    for k, v in cfg.items():
        if isinstance(v, str) and ("|" in v or "=" in v):
            parts = v.split("|")
            if "=" not in parts[0]:
                flat[k] = parts[0]
                parts = parts[1:]
            for p_ in parts:
                a, b = p_.split("=", 1)
                flat[a] = b
        else:
            flat[k] = v
    a = []
    for k, v in flat.items():
        if k in ("RFmod", "impedance"):
            continue
        vs = str(v)
        if vs.startswith("@"):
            vs = F[vs[1:]]
        a.append("--" + k)
        a.extend(vs.split(" ") if k == "BunchCurrent" else [vs])
    return a


SAN_RE = re.compile(r"ERROR: AddressSanitizer: ([\w-]+)")
UB_RE = re.compile(r"([\w/\.]+\.(?:cpp|hpp|h)):(\d+):\d+: runtime error: (.*)")


def classify(r):
    """None if the run is fine, else (key, detail)"""
    log = r["log"]
    m = SAN_RE.search(log)
    if m:
        frames = re.findall(r"#\d+ 0x[0-9a-f]+ in ([^\n]+)", log)
        mine = next((f for f in frames if "vfps::" in f or re.match(r"main\b", f)), frames[0] if frames else "?")
        fn = re.sub(r"\(.*", "", mine).strip()
        loc = re.search(r"(/[\w/\.]+\.(?:cpp|hpp)):(\d+)", mine)
        return ("asan:%s:%s" % (m.group(1), fn), "AddressSanitizer %s in %s (%s)" % (m.group(1), fn, "%s:%s" % (os.path.basename(loc.group(1)), loc.group(2)) if loc else "?"))
    m = UB_RE.search(log)
    if m:
        msg = re.sub(r"-?[\d\.]+(e[+-]?\d+)?|0x[0-9a-f]+", "N", m.group(3))[:60]
        return ("ubsan:%s:%s:%s" % (os.path.basename(m.group(1)), m.group(2), msg.replace(" ", "_")), "UndefinedBehaviorSanitizer: %s at %s:%s" % (m.group(3)[:120], os.path.basename(m.group(1)), m.group(2)))
    if r["rc"] == -999:
        return ("timeout", "no termination within the time limit")
    if r["rc"] < 0:
        tail = [ln for ln in log.strip().splitlines() if ln.strip()][-2:]
        return ("signal=%d" % (-r["rc"]), "terminated by signal %d: %s" % (-r["rc"], " | ".join(tail)[-200:]))
    if r["rc"] not in (0, 1):
        return ("exit=%d" % r["rc"], "exit status %d" % r["rc"])
    return None


VG_RE = re.compile(r"==\d+== (Conditional jump or move depends on uninitialised|Use of uninitialised|Invalid (?:read|write)|Syscall param .* uninitialised)")


def run(res, tier):
    res.assumptions += [
        "oracle = AddressSanitizer + UndefinedBehaviorSanitizer (+float-cast-overflow) on a -O0 build, exit by return with status 0/1; uninitialised reads only through the valgrind subset (MSan is unusable: boost, HDF5, FFTW are not instrumented)",
        "documented domain: buckets do not overlap (bucket spacing >= one phase space), padding >= 1; HDF5 error stacks printed by the library are messages, not memory errors",
        "token grammar of the input files: line templates valid / short / text / empty / negative index / huge index / duplicate index / nan-inf, files of <= 3 lines (<= 2 in the quick tier)"]
    exe = pl.build.build_bin("san")
    exe_plain = pl.build.build_bin("plain")
    wd = pl.workdir("c17")
    F = mkfiles(wd, exe_plain)
    cases = []     # (label, args)
    cases.append(("base", to_args(BASE, F)))
    singles = [(k, v) for k in AXES for v in AXES[k]]
    for k, v in singles:
        cases.append(("dev1 %s=%s" % (k, v), to_args(dict(BASE, **{k: v}), F)))
    if tier == "thorough":
        for (k1, v1), (k2, v2) in itertools.combinations(singles, 2):
            if k1 == k2:
                continue
            cases.append(("dev2 %s=%s + %s=%s" % (k1, v1, k2, v2), to_args(dict(BASE, **{k1: v1, k2: v2}), F)))
    else:   # a fixed selection of pairs that combine the axes touching buffers: grid size x padding x buckets x files x steps
        sel = {"GridSize", "padding", "RoundPadding", "BunchCurrent", "impedance", "StepsPerTs", "InitialDistFile", "tracking"}
        for (k1, v1), (k2, v2) in itertools.combinations([s for s in singles if s[0] in sel], 2):
            if k1 != k2 and (pl.chash(v1, v2) % 3 == 0 or "BunchCurrent" in (k1, k2)):
                cases.append(("dev2 %s=%s + %s=%s" % (k1, v1, k2, v2), to_args(dict(BASE, **{k1: v1, k2: v2}), F)))
    # ---- input files by token grammar
    maxlines = 3 if tier == "thorough" else 2
    ZT = {"valid": "%d 12.5 -3", "short": "%d 7", "text": "abc def ghi", "empty": "", "negidx": "-1 1 0", "hugeidx": "99999999999 1 0", "dupidx": "0 5 5", "naninf": "%d nan inf"}
    TT = {"inside": "0.5 0.3", "edge": "-6 6", "outside": "100 -100", "short": "1", "text": "a b", "nan": "nan nan", "empty": ""}
    ST = {"inside": "0.5 0.3", "edge": "6 -6", "outside": "1e9 -1e9", "text": "x y", "short": "2", "nan": "nan inf"}
    filecases = []
    for kind, T, opt, extra in (("impedance", ZT, "Impedance", {}), ("impedance-alone", ZT, "Impedance", {"VacuumGap": 0}), ("tracking", TT, "tracking", {"FPTrack": 3}), ("start", ST, "InitialDistFile", {})):
        for L in range(0, maxlines + 1):
            for combo in itertools.product(sorted(T), repeat=L):
                lines = [(T[c] % i) if "%d" in T[c] else T[c] for i, c in enumerate(combo)]
                for nl in ((True, False) if L else (True,)):
                    name = "g_%s_%s%s.%s" % (kind, "-".join(combo) or "none", "" if nl else "_nonl", "txt" if not kind.startswith("impedance") else "dat")
                    p = os.path.join(wd, name)
                    with open(p, "w") as f:
                        f.write("\n".join(lines) + ("\n" if nl and L else ""))
                    filecases.append(("file %s lines=%s%s" % (kind, ",".join(combo) or "(none)", "" if nl else " (no final newline)"), to_args(dict(BASE, **dict({opt: p}, **extra)), F)))
    cases += filecases

    def do(ic):
        i, (label, a) = ic
        r = pl.run(exe, a, wd, out="o%d.h5" % i, timeout=300)
        for ext in ("", ".cfg", ".log"):
            try:
                os.remove(r["h5"] + ext)
            except OSError:
                pass
        return label, a, r
    # wisdom for the transform lengths of the base run first (planning under ASan -O0 is slow; the rest is created on demand)
    pl.warm(exe, [to_args(BASE, F)], "c17warm")
    outcomes = {}
    for label, a, r in pl.pmap(do, list(enumerate(cases))):
        c = classify(r)
        outcome = c[0] if c else ("ok" if r["rc"] == 0 else "refused")
        outcomes[outcome] = outcomes.get(outcome, 0) + 1
        res.eval(label, pl.chash(label, outcome), trivial=(label == "base"))
        if c:
            res.violate("C17/bin/%s" % c[0], label, c[1], replay=dict(cmd=r["cmd"]))
    res.coverage["outcomes"] = outcomes
    # ---- valgrind subset: uninitialised values in the file readers ...
    vexe = pl.build.build_bin("vg")
    vcases = [c for c in filecases if any(t in c[0] for t in ("(none)", "lines=empty", "lines=short", "lines=text", "lines=valid", "lines=nan", "lines=naninf", "lines=inside"))]
    # every kind of input file (impedance table, impedance table alone, tracking file, start distribution): all files of at most one line
    # (thorough: two lines) over these templates - the selection is made per kind, not from the head of the list
    vcases = [c for c in vcases if c[0].count(",") <= (1 if tier == "thorough" else 0)]
    # ... and in every single deviation of the configuration domain (uninitialised values are invisible to the sanitizer build)
    # (the two large-grid cases of the kick axis are left to the sanitizer build: under valgrind they alone take a minute)
    vcases = [c for c in cases if c[0] == "base" or (c[0].startswith("dev1 ") and "GridSize=128" not in c[0] and "GridSize=256" not in c[0])] + vcases

    def dov(ic):
        i, (label, a) = ic
        cmd = ["valgrind", "-q", "--error-exitcode=99", "--track-origins=no", vexe] + pl.BASE + ["-o", "v%d.h5" % i] + [str(x) for x in a]
        try:
            r = subprocess.run(cmd, cwd=wd, env=vlib.env(), capture_output=True, text=True, timeout=900, errors="replace")
            rc, log = r.returncode, r.stdout + r.stderr
        except subprocess.TimeoutExpired:
            rc, log = -999, "TIMEOUT"
        for ext in ("", ".cfg", ".log"):
            try:
                os.remove(os.path.join(wd, "v%d.h5" % i) + ext)
            except OSError:
                pass
        return label, " ".join(cmd), rc, log
    nv = 0
    for label, cmd, rc, log in pl.pmap(dov, list(enumerate(vcases))):
        nv += 1
        res.eval("valgrind " + label, pl.chash("vg", label, rc), trivial=False)
        m = VG_RE.search(log)
        if m or rc == 99:
            fr = re.findall(r"(?:at|by) 0x[0-9A-F]+: ([^\n]+)", log)
            mine = next((f for f in fr if "vfps::" in f or f.startswith("main")), fr[0] if fr else "?")
            fn = re.sub(r"\(.*", "", mine).strip()
            res.violate("C17/valgrind/%s:%s" % ((m.group(1) if m else "error").split()[0].lower(), fn), "valgrind " + label, "valgrind: %s in %s" % (m.group(1) if m else "error", fn), replay=dict(cmd=cmd))
        elif rc < 0 and rc != -999:
            res.violate("C17/valgrind/signal=%d" % -rc, "valgrind " + label, log[-200:], replay=dict(cmd=cmd))
    res.coverage["valgrind_runs"] = nv
    res.rule = ("one evaluation = one run of the sanitizer build (or valgrind run) of the real binary; cases = base run, every single deviation, pairs of deviations, and every input file of <= %d lines over the token grammar; "
                "distinct = hash of case + outcome class; trivial = the base run" % maxlines)
    res.bounds_done.append("%d sanitizer runs (%d single deviations, %d file cases), %d valgrind runs" % (len(cases), len(singles), len(filecases), nv))
    return None


def replay(doc):
    print("re-run:", doc.get("replay"))
    return 1
