"""C19 - zero-amplitude modulation == static RF; applied modulation recorded exactly once per step"""
from checks import _api
LEVEL = "model_checking"


def run(res, tier):
    res.assumptions += [
        "the private PRNG is not re-seeded: with noise on, the precomputed queue itself is read back (private member) and is the reference for kicks and records",
        "at most `steps` applies per object, as in main() (the queue is exactly `steps` long)",
        "the /RFKicks dataset of the real binary (one row per executed step for every output cadence) is covered by the main-loop model of C10/C14"]
    c = _api.run(res, tier, ["C19_dynrf"])
    res.states = max(1, int(res.coverage.get("states", 0)))
    res.transitions = max(1, int(res.coverage.get("transitions", 0)))
    res.traces = int(res.coverage.get("transitions", 0))   # every sequence is executed on the real object
    return c


replay = _api.replay
