"""C19 - zero-amplitude modulation == static RF; applied modulation recorded exactly once per step (API level); the /RFKicks dataset of the real binary"""
import math
import os
import sys

import vlib
from checks import _api
sys.path.insert(0, os.path.join(vlib.VERIF, "proc"))
import pl  # noqa: E402
LEVEL = "model_checking"
C = 2.99792458e8


def process_level(res, tier):
    """the real binary: one /RFKicks row per executed step for every cadence, rows = (synchronous phase + A sin(2 pi f_mod dt k), 1)
    with A, f_mod, dt derived from the options as documented (degrees, Hz, steps per synchrotron period or per revolution)"""
    exe = pl.build.build_bin("plain")
    wd = pl.workdir("c19")
    fs, frev = 45000.0, 9e6
    cases = []
    for rf in ("linear", "sin"):
        for per in ("Ts", "rev"):
            for outstep in ((0, 1, 3, 4, 12, 13) if vlib.wide(tier) else (0, 1, 3, 12)):
                # (amplitudes up to three quarters of an RF period: the recorded - and applied - phase is the configured sine, not that sine folded into one period)
                for amp, fmod in (((1.0, 4e4), (0.3, 1.7e5), (270.0, 4e4), (170.0, 9e4)) if vlib.wide(tier) else ((1.0, 4e4),)):
                    cases.append((rf, per, outstep, amp, fmod, 12))
        # runs longer than one synchrotron period (the record and the queue cover every step of the whole run)
        for outstep in ((0, 7) if vlib.wide(tier) else (7,)):
            cases.append((rf, "Ts", outstep, 1.0, 4e4, 40))
        # run lengths that are not a whole number of steps (-T 0.4, 1.3, 0.26 at 16 steps per period: 6.4, 20.8, 4.16 -> 7, 21, 5 steps are executed): the modulation
        # advances by one step time per step, whatever the last step is rounded up to
        for nst in (6.4, 20.8, 4.16):
            for outstep in (0, 3):
                cases.append((rf, "Ts", outstep, 10.0, 1.5e5, nst))
    steps_per_ts = 16
    # whatever else the run is asked to do while it records the modulation (logging, saving, tracking, renormalising, a wake): one record per step all the same
    track = os.path.join(wd, "track.txt")
    with open(track, "w") as f:
        f.write("0.5 0.3\n-1.0 0.2\n")
    EXTRA = [[], ["--verbose", "true"], ["--SavePhaseSpace", 2], ["--tracking", track, "--FPTrack", 1], ["--RenormalizeCharge", 3], ["--verbose", "true", "--SavePhaseSpace", 1, "--RenormalizeCharge", 2],
             ["--VacuumGap", 0.03, "--UseCSR", "false", "--CollimatorRadius", 0.002]]
    cases = [c + (0,) for c in cases]
    for rf in ("linear", "sin"):
        for ex in range(1, len(EXTRA)):
            for outstep in (0, 3, 4):
                cases.append((rf, "Ts", outstep, 1.0, 4e4, 12, ex))

    def do(c):
        rf, per, outstep, amp, fmod, nsteps, ex = c
        a = ["-s", 16, "-T", nsteps / steps_per_ts, "-n", outstep] + ([] if "--VacuumGap" in EXTRA[ex] else ["-G", 0]) + ["-f", fs, "--padding", 2, "--LinearRF", "true" if rf == "linear" else "false",
             "--RFPhaseModAmplitude", amp, "--RFPhaseModFrequency", fmod] + EXTRA[ex]
        a += ["-N", steps_per_ts] if per == "Ts" else ["--StepsPerRevolution", steps_per_ts * fs / frev, "-N", 1000]
        r = pl.run(exe, a, wd, out="o_%s_%s_%d_%g_%g_%d.h5" % (rf, per, outstep, amp, nsteps, ex))
        doc = pl.h5(r["h5"], maxv=20000) if r["rc"] == 0 else None
        for ext in ("", ".cfg", ".log"):
            try:
                os.remove(r["h5"] + ext)
            except OSError:
                pass
        return c, r, doc
    for c, r, doc in pl.pmap(do, cases):
        rf, per, outstep, amp, fmod, nsteps, ex = c
        case = "process rf=%s steps-per=%s outstep=%d amplitude=%gdeg f_mod=%gHz steps=%g%s" % (rf, per, outstep, amp, fmod, nsteps, (" with " + " ".join(str(x) for x in EXTRA[ex] if not str(x).startswith("/"))) if ex else "")
        rp = dict(cmd=r["cmd"])
        if doc is None or "error" in doc:
            res.violate("C19/process/run-failed", case, "rc=%s %s" % (r["rc"], r["log"][-200:]), replay=rp)
            continue
        rows = pl.rows(doc, "/RFKicks/data")
        res.eval(case, pl.chash(case, rows), trivial=False)
        key = "C19/process/%s/%s" % (rf, "StepsPerRevolution" if per == "rev" else "StepsPerTs")
        import struct
        nexec = int(math.ceil(struct.unpack("f", struct.pack("f", nsteps / steps_per_ts))[0] * steps_per_ts - 1e-9))     # the program holds -T in single precision
        if len(rows) != nexec:
            res.violate(key + "/record-count/outstep%s" % ("=0" if outstep == 0 else ">0"), case, "/RFKicks/data has %d rows for %d executed steps" % (len(rows), nexec), replay=rp)
            continue
        dt = 1.0 / (fs * steps_per_ts)
        sync = 0.0
        if rf == "sin":
            P = {k.split("@")[1]: v for k, v in doc["attrs"].items() if k.startswith("/Info/Parameters@")}
            E0, VRF = P["BeamEnergy"], P["AcceleratingVoltage"]
            Rb = C / (2 * math.pi * frev)
            V0 = 1.602e-19 * (E0 / 510998.9) ** 4 / (3 * 8.854187817e-12 * Rb)
            # the synchronous phase of a sinusoidal RF voltage V_RF sin(phi) that restores the radiation loss V0 per turn (what main() itself prints as such)
            sync = math.asin(V0 / VRF)
        A = amp / 360.0 * 2 * math.pi
        for k, (ph, am) in enumerate(rows):
            want = sync + A * math.sin(2 * math.pi * fmod * dt * k)
            if abs(ph - want) > 2e-6 + 2e-5 * A or am != 1.0:
                res.violate(key + "/waveform", case, "row %d: phase %.8g amplitude %.8g, expected %.8g and 1 (A=%.6g rad, f_mod*dt=%.6g)" % (k, ph, am, want, A, fmod * dt), replay=rp)
                break
    res.bounds_done.append("process level: %d runs (RF model x steps per Ts / per revolution x output cadence x modulation), /RFKicks rows and waveform" % len(cases))

    # noise (with and without a modulation next to it): the values are random, the bookkeeping is not - one row per executed step, a quantity without
    # noise keeps its noise-free value in every row, a quantity with noise does not
    ncases = [(rf, outstep, pn, an, mod, nsteps) for rf in ("linear", "sin") for outstep in (0, 1, 5) for pn, an in ((0.5, 0), (0, 0.01), (0.5, 0.01)) for mod in (0, 1)
              for nsteps in ((12, 40) if vlib.deep(tier) else (12,))]

    def ndo(c):
        rf, outstep, pn, an, mod, nsteps = c
        a = ["-s", 16, "-T", nsteps / steps_per_ts, "-n", outstep, "-G", 0, "-f", fs, "--padding", 2, "--LinearRF", "true" if rf == "linear" else "false", "-N", steps_per_ts,
             "--RFPhaseSpread", pn, "--RFAmplitudeSpread", an] + (["--RFPhaseModAmplitude", 1.0, "--RFPhaseModFrequency", 4e4] if mod else [])
        r = pl.run(exe, a, wd, out="n_%s_%d_%g_%g_%d_%d.h5" % c)
        doc = pl.h5(r["h5"], maxv=20000) if r["rc"] == 0 else None
        for ext in ("", ".cfg", ".log"):
            try:
                os.remove(r["h5"] + ext)
            except OSError:
                pass
        return c, r, doc
    for c, r, doc in pl.pmap(ndo, ncases):
        rf, outstep, pn, an, mod, nsteps = c
        case = "process rf=%s outstep=%d phase-noise=%gdeg amplitude-noise=%g modulation=%s steps=%d" % (rf, outstep, pn, an, "on" if mod else "off", nsteps)
        rp = dict(cmd=r["cmd"])
        if doc is None or "error" in doc:
            res.violate("C19/process/run-failed", case, "rc=%s %s" % (r["rc"], r["log"][-200:]), replay=rp)
            continue
        rows = pl.rows(doc, "/RFKicks/data") if "/RFKicks/data" in doc["datasets"] else []
        res.eval(case, pl.chash(case, len(rows)), trivial=False)
        key = "C19/process/%s/noise" % rf
        if len(rows) != nsteps:
            res.violate(key + "/record-count/outstep%s" % ("=0" if outstep == 0 else ">0"), case, "/RFKicks/data has %d rows for %d executed steps" % (len(rows), nsteps), replay=rp)
            continue
        phases, ampls = set(x[0] for x in rows), set(x[1] for x in rows)
        if (an == 0 and ampls != {1.0}) or (an > 0 and len(ampls) < nsteps // 2):
            res.violate(key + "/amplitude-column", case, "amplitude noise %g: %d distinct recorded amplitudes in %d rows (%s...)" % (an, len(ampls), nsteps, sorted(ampls)[:3]), replay=rp)
        if (pn == 0 and not mod and len(phases) != 1) or (pn > 0 and len(phases) < nsteps // 2):
            res.violate(key + "/phase-column", case, "phase noise %g deg, modulation %s: %d distinct recorded phases in %d rows" % (pn, "on" if mod else "off", len(phases), nsteps), replay=rp)
        if an > 0 and not all(abs(x - 1) < 10 * an for x in ampls):
            res.violate(key + "/amplitude-scale", case, "amplitude noise of relative spread %g: recorded amplitudes reach %g" % (an, max(ampls, key=lambda x: abs(x - 1))), replay=rp)
    res.bounds_done.append("process level, noise: %d runs (RF model x cadence x {phase, amplitude, both} x modulation on/off): one row per step, noise-free columns constant, noisy ones not" % len(ncases))


def run(res, tier):
    res.assumptions += [
        "the private PRNG is not re-seeded: with noise on, the precomputed queue itself is read back (private member) and is the reference for kicks and records",
        "at most `steps` applies per object, as in main() (the queue is exactly `steps` long)",
        "process level: pure phase modulation (no noise): recorded phase = synchronous phase + A sin(2 pi f_mod dt k) with A in radians from degrees and dt the step time"]
    c = _api.run(res, tier, ["C19_dynrf"], blocks=(1,))
    process_level(res, tier)
    res.states = max(1, int(res.coverage.get("states", 0)))
    res.transitions = max(1, int(res.coverage.get("transitions", 0)))
    res.traces = int(res.coverage.get("transitions", 0))   # every sequence is executed on the real object
    return c


replay = _api.replay
