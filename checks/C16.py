"""C16 - impedance models well-formed, passive, scaled, causal; factory = sum of the parts"""
import os
import vlib
from checks import _api
LEVEL = "exploration"


def run(res, tier):
    res.assumptions += [
        "which side of the source is called 'ahead' is pinned to the current convention; demanded: one-sidedness (tail ratio 3) and CSR / wall on opposite sides",
        "the factory wiring (CSR from the bending radius, wall from the revolution frequency) is pinned to the code; ring parameters are chosen so that the two differ",
        "impedance table file of 40 rows, used for sample counts <= 40 only (shorter tables are C17's subject)"]
    os.makedirs(vlib.WORK, exist_ok=True)
    zf = os.path.join(vlib.WORK, "c16_table.dat")
    with open(zf, "w") as f:
        for i in range(40):
            f.write("%d %.6g %.6g\n" % (i, 10 + 3 * ((i * 7) % 5), ((i * 3) % 7) - 3))
    return _api.run(res, tier, ["C16_impedance"], warm=True, extra=["--zfile", zf])


replay = _api.replay
