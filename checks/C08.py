"""C08 - every bunch evolves as it would on its own (API level differential, bit for bit; process level through the moments)"""
import os
import sys

import vlib
from checks import _api
sys.path.insert(0, os.path.join(vlib.VERIF, "proc"))
import pl  # noqa: E402
LEVEL = "exploration"


def process_level(res, tier):
    exe = pl.build.build_bin("plain")
    wd = pl.workdir("c08")
    base = ["-s", 16, "-N", 16, "-T", 2, "-n", 4, "-G", 0, "--padding", 2, "--InitialDistZoom", 0.8, "-d", 0.001]
    pats = {"single": [1e-3], "two": [1e-3, 1e-3], "gap": [1e-3, 0, 1e-3], "trailing-empty": [1e-3, 0], "three-unequal": [1e-3, 2e-3, 5e-4]}
    if vlib.wide(tier):
        pats.update({"leading-empty": [0, 1e-3], "four": [1e-3, 1e-3, 0, 1e-3], "two-equal-behind-another": [2e-3, 1e-3, 1e-3], "equal-pair-in-the-middle": [1e-3, 2e-3, 2e-3, 1e-3]})
    if vlib.deep(tier):
        pats.update({"seven-buckets-six-bunches": [1e-3, 2e-3, 0, 1e-3, 5e-4, 1e-3, 2e-3], "eight-equal": [1e-3] * 8})
    # (RF model, interpolation points, Fokker-Planck variant)
    variants = [("linear", 4, 3), ("sin", 3, 3), ("linear", 3, 0), ("sin", 4, 1), ("linear", 2, 2), ("linear-clamped", 4, 3), ("sin-clamped", 4, 0)] if vlib.wide(tier) else [("linear", 4, 3), ("sin", 3, 0)]
    jobs = [(k, rf, it, fp) for k in pats for rf, it, fp in variants]

    def do(j):
        k, rf, it, fp = j
        a = base + ["--LinearRF", "true" if rf.startswith("linear") else "false", "--InterpolateClamped", "true" if rf.endswith("clamped") else "false", "--InterpolationPoints", it, "--FPType", fp, "-I"] + pats[k]
        r = pl.run(exe, a, wd, out="o_%s_%s_%d.h5" % (k, rf, fp), timeout=600)
        doc = pl.h5(r["h5"], maxv=100000) if r["rc"] == 0 else None
        return j, r, doc
    out = {j: (r, d) for j, r, d in pl.pmap(do, jobs)}
    for rf, it, fp in variants:
        ref_r, ref = out[("single", rf, it, fp)]
        if ref is None or "error" in ref:
            res.violate("C08/process/run-failed", "single " + rf, ref_r["log"][-200:], replay=dict(cmd=ref_r["cmd"]))
            continue
        for k in pats:
            if k == "single":
                continue
            r, doc = out[(k, rf, it, fp)]
            case = "process pattern=%s rf=%s fptype=%d" % (k, rf, fp)
            rp = dict(cmd=r["cmd"], reference=ref_r["cmd"])
            if doc is None or "error" in doc:
                res.violate("C08/process/run-failed", case, "rc=%s %s" % (r["rc"], r["log"][-200:]), replay=rp)
                continue
            nb = sum(1 for x in pats[k] if x > 0)
            res.eval(case, pl.chash(case, doc["datasets"]["/BunchLength/data"]["rowhash"]), trivial=False)
            for name in ("/BunchLength/data", "/EnergySpread/data", "/BunchPosition/data", "/EnergyAverage/data"):
                rows, rrows = pl.rows(doc, name), pl.rows(ref, name)
                if len(rows) != len(rrows) or any(len(x) != nb for x in rows):
                    res.violate("C08/process/shape", case, "%s has shape %s" % (name, doc["datasets"][name]["dims"]), replay=rp)
                    break
                worst = max(abs(x - rr[0]) for row, rr in zip(rows, rrows) for x in row)
                res.coverage["worst_process_bunch_vs_single"] = max(res.coverage.get("worst_process_bunch_vs_single", 0), worst)
                if worst > 2e-6:
                    res.violate("C08/process/%s/bunch-differs-from-single-bunch-run" % ("empty-bucket" if 0 in pats[k] else "filled"), case,
                                "%s: a bunch of the train deviates from the single-bunch run by %.3g" % (name, worst), replay=rp)
                    break
    res.bounds_done.append("process level: filling patterns %s x {RF model, interpolation, Fokker-Planck variant}, moments of every bunch vs the single-bunch run" % sorted(pats))


def run(res, tier):
    res.assumptions += [
        "x-direction kicks use one displacement field for all bunches (the drift is bunch independent by design); y-direction kicks get a different field per bunch",
        "bit-identity is demanded because multi- and single-bunch paths perform the same arithmetic in the same build",
        "process level: no impedance, moments compared within 2e-6 (the per-bunch normalisation rescales the data)",
        "OpenCL paths compiled out"]
    c = _api.run(res, tier, ["C08_bunches"])
    process_level(res, tier)
    return c


replay = _api.replay
