"""C08 - every bunch evolves as it would on its own (differential, bit for bit)"""
from checks import _api
LEVEL = "exploration"


def run(res, tier):
    res.assumptions += [
        "x-direction kicks use one displacement field for all bunches (the drift is bunch independent by design); y-direction kicks get a different field per bunch",
        "bit-identity is demanded because multi- and single-bunch paths perform the same arithmetic in the same build",
        "OpenCL paths compiled out"]
    return _api.run(res, tier, ["C08_bunches"])


replay = _api.replay
