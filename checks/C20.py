"""C20 - command line beats config file beats documented default; aliases; errors (API level + exit status of the real binary)"""
import os
import re
import subprocess
import sys

import vlib
from checks import _api
sys.path.insert(0, os.path.join(vlib.VERIF, "proc"))
import pl  # noqa: E402
LEVEL = "exploration"


def documented_defaults(res, exe):
    """the reference model's defaults must be the ones the program documents in --help"""
    h = subprocess.run([exe, "--help"], capture_output=True, text=True, env=vlib.env()).stdout
    doc = {}
    for m in re.finditer(r"--(\w+)\s*\]?\s*(?:\[=arg\(=[^)]*\)\]|arg)\s*\(=([^)]*)\)", h):
        doc[m.group(1)] = m.group(2)
    hexe = pl.build.build_harness("C20_precedence")
    tab = subprocess.run([hexe, "--dump-table"], capture_output=True, text=True, env=vlib.env()).stdout
    n = 0
    for line in tab.splitlines():
        name, d = (line.split("\t") + [""])[:2]
        if name not in doc:
            continue
        n += 1
        dd = doc[name]
        if dd in ("(ignore", "(ignore)"):
            dd = "0"
        try:
            same = float(dd) == float(d)
        except ValueError:
            same = dd == d
        res.eval("documented-default %s=%s" % (name, dd), pl.chash(name, dd), trivial=False)
        if not same:
            res.violate("C20/reference-default-differs-from-help/%s" % name, "option %s" % name, "--help documents %r, the reference model uses %r" % (dd, d))
    res.coverage["documented_defaults_cross_checked"] = n


def process_level(res, exe):
    wd = pl.workdir("c20")
    good = ["-s", 16, "-N", 8, "-T", 0.125, "-n", 1, "-G", 0, "--padding", 2]
    cases = [("unknown-cli", good + ["--NoSuchOption", 1], None, True), ("malformed-cli", good + ["--alpha0", "abc"], None, True),
             ("malformed-int-cli", ["-s", "1e", "-N", 8, "-T", 0.125, "-G", 0], None, True),
             ("unknown-cfg", good, "NoSuchOption=1\n", True), ("malformed-cfg", good, "alpha0=abc\n", True),
             ("missing-config", good, "MISSING", False), ("missing-config-named-default.cfg", good, "MISSING-DEFAULT", False),
             ("malformed-cfg-under-cli", good, "GridSize=abc\n", True), ("control-ok", good, "GridSize=16\n", None),
             # the plain invocation: no --config at all, no default.cfg in the working directory - the run goes ahead with what the command line says
             ("control-no-config-option-at-all", good, "NONE", None)]
    for name, args, cfg, must_fail in cases:
        out = "o_%s.h5" % name
        a = list(args)
        base = list(pl.BASE)
        if cfg is not None:
            cpath = os.path.join(wd, name + ".cfg")
            if cfg == "NONE":
                if os.path.exists(os.path.join(wd, "default.cfg")):
                    os.remove(os.path.join(wd, "default.cfg"))
            elif cfg == "MISSING-DEFAULT":
                cpath = "default.cfg"      # the name the program falls back to when no --config is given - here it IS given, and there is no such file
                if os.path.exists(os.path.join(wd, cpath)):
                    os.remove(os.path.join(wd, cpath))
            elif cfg != "MISSING":
                with open(cpath, "w") as f:
                    f.write(cfg)
            base = ["--config", cpath, "--cldev", "0"] if cfg != "NONE" else ["--cldev", "0"]
        cmd = [exe] + base + ["-o", out] + [str(x) for x in a]
        r = subprocess.run(cmd, cwd=wd, env=vlib.env(), capture_output=True, text=True)
        log = r.stdout + r.stderr
        case = "process %s" % name
        res.eval(case, pl.chash(case, r.returncode), trivial=False)
        produced = os.path.exists(os.path.join(wd, out))
        simulated = "Starting the simulation" in log
        rp = dict(cmd=" ".join(cmd))
        if must_fail is True:
            if r.returncode == 0 or produced or simulated or not log.strip():
                res.violate("C20/process/%s/not-a-failure" % name, case, "exit status %d, results file produced=%s, simulated=%s, message=%r" % (r.returncode, produced, simulated, log.strip()[-120:]), replay=rp)
        elif must_fail is False:
            if produced or simulated or "exist" not in log:
                res.violate("C20/process/%s/not-stopped" % name, case, "results file produced=%s, simulated=%s, message=%r" % (produced, simulated, log.strip()[-120:]), replay=rp)
        else:
            if r.returncode != 0 or not produced:
                res.violate("C20/process/control-run-failed", case, log[-200:], replay=rp)


def run(res, tier):
    res.assumptions += [
        "documented default = the value printed by the program's own --help (cross-checked against the reference model's table on every run)",
        "an alias and its current name both given in the same file: the current name wins (the statement leaves this open)",
        "malformed-token alphabet {abc, 1e, '1,5', empty, 0x}; boost's lenient conversions of negative numbers to unsigned are outside the alphabet"]
    c = _api.run(res, tier, ["C20_precedence"])
    exe = pl.build.build_bin("plain")
    documented_defaults(res, exe)
    process_level(res, exe)
    return c


replay = _api.replay
