"""C07 - CSR power == energy taken by the wake (Parseval), never negative"""
from checks import _api
LEVEL = "exploration"


def run(res, tier):
    res.assumptions += [
        "single bunch in bucket 0 with spacing 0, as main() builds the radiation field",
        "the top bin floor(N/2) may or may not be used by the wake (same latitude as C06)",
        "FFTW wisdom for every transform length is created in a sequential warm-up pass first"]
    return _api.run(res, tier, ["C07_csr"], warm=True)


replay = _api.replay
