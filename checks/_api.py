"""helpers for checks that are decided by API-level harnesses (Engine A)"""
import vlib


def run(res, tier, harnesses, quick_deadline=100, thorough_deadline=900, kind="plain", nshards=None, extra=None, warm=False):
    dl = quick_deadline if tier == "quick" else thorough_deadline
    for h in harnesses:
        vlib.run_harness(res, h, tier, deadline=dl, kind=kind, nshards=nshards, extra=extra, timeout=dl * 3 + 600, warm=warm)

    def confirm(v):
        rp = v.get("replay") or {}
        if "case" not in rp or "harness" not in rp:
            return True
        doc = vlib.replay_harness(rp["harness"], rp["case"], rp.get("kind", kind), tier, rp.get("extra"))
        if doc is None:
            return True   # crashed while replaying: certainly not clean
        return any(x["key"] == v["key"] for x in doc["violations"])
    return confirm


def replay(doc):
    rp = doc.get("replay") or {}
    d = vlib.replay_harness(rp["harness"], rp["case"], rp.get("kind", "plain"), doc.get("tier", "quick"), rp.get("extra"))
    if d is None:
        print("replay crashed")
        return 1
    for v in d["violations"]:
        print("VIOLATION reproduced: key=%s case=%s :: %s" % (v["key"], v["case"], v["detail"]))
    if not d["violations"]:
        print("case ran clean: %s (evaluations=%d)" % (rp["case"], d["evaluations"]))
    return 1 if d["violations"] else 0
