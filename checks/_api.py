"""helpers for checks that are decided by API-level harnesses (Engine A)"""
import vlib


def run(res, tier, harnesses, quick_deadline=100, thorough_deadline=900, kind="plain", nshards=None, extra=None, warm=False, blocks=(1, 8)):
    dl = quick_deadline if tier == "quick" else thorough_deadline
    for h in harnesses:
        vlib.run_harness(res, h, tier, deadline=dl, kind=kind, nshards=nshards, extra=extra, timeout=dl * 3 + 600, warm=warm, blocks=blocks)

    def confirm(v):
        rp = v.get("replay") or {}
        if "case" not in rp or "harness" not in rp:
            return True
        doc = vlib.replay_harness(rp["harness"], rp["case"], rp.get("kind", kind), tier, rp.get("extra"))
        if doc is None:
            return True   # crashed while replaying: certainly not clean
        if any(x["key"] == v["key"] for x in doc["violations"]):
            return True
        # the case alone runs clean.  A case is also a step of a history: the cases of a shard run in one process, one after the other, and the code
        # under test may carry state from one object to the next (a function-local static, a cache).  Replay the shard - deterministic, same order -
        # and report the violation if it is there again; the replay file then names the shard instead of the single case.
        if rp.get("shard"):
            doc = vlib.replay_harness_shard(rp["harness"], rp["shard"], rp.get("kind", kind), tier, rp.get("extra"))
            if doc is None or any(x["key"] == v["key"] for x in doc["violations"]):
                rp["needs_history"] = True
                v["detail"] += "  [only in a process that has run other cases before: state carried from one object to the next; replay = the whole shard %s]" % rp["shard"]
                return True
        return False
    return confirm


def replay(doc):
    rp = doc.get("replay") or {}
    if rp.get("needs_history"):
        d = vlib.replay_harness_shard(rp["harness"], rp["shard"], rp.get("kind", "plain"), doc.get("tier", "quick"), rp.get("extra"))
        if d is not None:
            d["violations"] = [x for x in d["violations"] if x["key"] == doc.get("key")]
    else:
        d = vlib.replay_harness(rp["harness"], rp["case"], rp.get("kind", "plain"), doc.get("tier", "quick"), rp.get("extra"))
    if d is None:
        print("replay crashed")
        return 1
    for v in d["violations"]:
        print("VIOLATION reproduced: key=%s case=%s :: %s" % (v["key"], v["case"], v["detail"]))
    if not d["violations"]:
        print("case ran clean: %s (evaluations=%d)" % (rp["case"], d["evaluations"]))
    return 1 if d["violations"] else 0
