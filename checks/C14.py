"""C14 - Ctrl+C at any moment leaves a complete, consistent results file.
Deviation-bounded exploration over the hooked interrupt points: the TLA+ model of main() is checked by TLC (all behaviours with
<= MaxSigs signals for every configuration of the lattice), every terminal behaviour is replayed on the real hooked binary and
its label trace, hit count, datasets, log word and exit status must equal the model's (two-way conformance)."""
import os
import re
import sys

import vlib
sys.path.insert(0, os.path.join(vlib.VERIF, "proc"))
sys.path.insert(0, os.path.join(vlib.VERIF, "models"))
import pl  # noqa: E402
import conform  # noqa: E402

LEVEL = "model_checking"


def flag_readers(res):
    """the interrupt-point set is complete only while the flag is read at the loop head and before the final message and nowhere else"""
    src = os.path.join(pl.build.REPO, "src")
    inc = os.path.join(pl.build.REPO, "inc")
    hits = []
    for root in (src, inc):
        for dp, _, fs in os.walk(root):
            for f in fs:
                if not f.endswith((".cpp", ".hpp")):
                    continue
                p = os.path.join(dp, f)
                for i, ln in enumerate(open(p, errors="replace"), 1):
                    if re.search(r"Display::abort|\babort\b\s*(=|\))", ln) and "abort" in ln and "//" not in ln.split("abort")[0][-3:]:
                        if "Display::abort" in ln or ("abort" in ln and f in ("Display.hpp", "Display.cpp")):
                            hits.append("%s:%d:%s" % (os.path.relpath(p, pl.build.REPO), i, ln.strip()))
    reads = [h for h in hits if re.search(r"(!\s*Display::abort|if\s*\(\s*Display::abort)", h)]
    res.coverage["abort_flag_sites"] = hits
    mains = [h for h in reads if h.startswith("src/main.cpp")]
    others = [h for h in reads if not h.startswith("src/main.cpp")]
    if len(mains) != 2 or others:
        res.violate("C14/interrupt-point-set-incomplete", "grep Display::abort",
                    "the abort flag is read at %d places in main.cpp (model: loop head and final message) and %d elsewhere: %s" % (len(mains), len(others), (mains + others)[:4]))


def run(res, tier):
    res.assumptions += [
        "a signal delivered inside a statement (library call) is equivalent to one delivered right after it: the handler only sets Display::abort, "
        "which is read at the loop head and before the final message only (grep-checked on every run)",
        "8x8 grid, 8 steps per synchrotron period; laststep in {0,1,3,4}; the configuration axes tracking on/off and RenormalizeCharge {default, 3, 2} exist on the binary side only (the label trace does not depend on them)",
        "the final record of every behaviour is compared, bit for bit, with the record of the step reached in a run of the same physics that writes every step",
        "SIGINT is raised synchronously at the hook (std::raise), i.e. the real handler installed by main() runs",
        "every second behaviour is also replayed on a run that writes no results file (--run_anyway, no -o): same label trace minus the hook points inside the file blocks, same final message, exit status 0",
        "every third behaviour is replayed on a process that inherited SIGINT as 'ignored' (what a background job of a non-interactive shell gets): main() installs its handler regardless, so the model's behaviour must be observed there too"]
    flag_readers(res)
    exe = pl.build.build_bin("hook")
    wd = pl.workdir("c14")
    pl.warm(exe, [conform.args_of(dict(last=1, outstep=1, h5save=1, wake=w, drf=False)) for w in (True, False)], "c14warm")
    if tier == "thorough":
        lattices = [("one", 1, [0, 1, 3, 4], [0, 1, 2, 3], [0, 1, 2], [True, False], [True, False]),
                    ("two", 2, [1, 3], [0, 2], [1], [True, False], [True, False])]
    else:
        lattices = [("one", 1, [0, 1, 3], [0, 2], [0, 1, 2], [True, False], [True, False]),
                    ("two", 2, [1], [0, 1], [1], [True], [True])]
    track = os.path.join(wd, "track.txt")
    with open(track, "w") as f:
        f.write("0.5 0.3\n-1.0 0.2\n")
    tot_states = tot_trans = tot_traces = 0
    for name, maxsigs, lasts, outs, saves, wakes, drfs in lattices:
        terms, st = conform.run_tlc("c14_" + name, maxsigs, lasts, outs, saves, wakes, drfs)
        res.coverage["tlc_" + name] = dict(generated=st["states"], distinct=st["distinct"], depth=st["depth"], terminal_behaviours=len(terms), ok=st["ok"])
        if not st["ok"]:
            res.violate("C14/model/TLC-reports-an-error", "lattice " + name, st.get("tail", "")[-600:])
            continue
        tot_states += st["distinct"]
        tot_trans += st["states"]      # TLC's "states generated" counts one per explored transition (plus the initial states)
        # uninterrupted reference per configuration
        # binary-side axis: periodic charge renormalisation (every 3rd / every 2nd step, or the default) - the final block decides about it like the loop head does
        RENORM = [None, 3, 2]
        for i, t in enumerate(terms):
            t["cfg"] = dict(t["cfg"], renorm=RENORM[i % 3])

        def key(c):
            return (c["last"], c["outstep"], c["h5save"], c["wake"], c["drf"], c.get("renorm"))
        cfgs = {key(t["cfg"]): t["cfg"] for t in terms}
        refs = {}
        for k, ob in zip(cfgs, pl.pmap(lambda kc: conform.observe(exe, kc[1], [], wd, "ref_%s_%d" % (name, abs(hash(kc[0])))), list(cfgs.items()))):
            refs[k] = ob
        # the run of the same physics that writes every step (for the final-record oracle)
        dkeys = sorted(set((c["wake"], c["drf"], c.get("renorm")) for c in cfgs.values()), key=str)
        dense = {}
        for k, ob in zip(dkeys, pl.pmap(lambda k: conform.observe(exe, dict(last=max(lasts), outstep=1, h5save=1, wake=k[0], drf=k[1], renorm=k[2]), [], wd, "dense_%s_%d" % (name, abs(hash(k)))), dkeys)):
            dense[k] = ob

        def do(it):
            i, t = it
            use_track = track if (tier == "thorough" and i % 2 == 1) else None
            # every third behaviour is started the way a background job of a script is: with SIGINT inherited as 'ignored'
            ign = (i % 3 == 2)
            ob = conform.observe(exe, t["cfg"], t["sigAt"], wd, "%s_%d" % (name, i), use_track, inherit_ignored=ign)
            ref = refs[key(t["cfg"])] if not use_track else None
            probs = conform.compare(t, ob, ref)
            if not use_track:
                probs += conform.final_record_problems(t, ob, dense[(t["cfg"]["wake"], t["cfg"]["drf"], t["cfg"].get("renorm"))])
            if i % 2 == 0 and not use_track:
                # the same behaviour without a results file (--run_anyway, no -o): completes the step, says the same, exits successfully
                np_, nl = conform.nofile_problems(exe, t, wd, "%s_%d" % (name, i))
                probs += np_
                ob["nofile"] = nl is not None
            return t, ob, probs, (use_track, ign)
        for t, ob, probs, (tr, ign) in pl.pmap(do, list(enumerate(terms))):
            tot_traces += 1
            case = "cfg=%s signals-at-hits=%s%s%s" % (t["cfg"], t["sigAt"], " tracking" if tr else "", " sigint-inherited-ignored" if ign else "")
            res.eval(case, pl.chash(case, ob["labels"]), trivial=False)
            if ob.get("nofile"):
                res.eval(case + " without a results file", pl.chash(case, "nofile"), trivial=False)
                res.coverage["behaviours_replayed_without_a_results_file"] = res.coverage.get("behaviours_replayed_without_a_results_file", 0) + 1
            where = "no-signal" if not t["sigAt"] else ("setup" if t["trace"][t["sigAt"][0] - 1].startswith("S") else "final-block" if t["trace"][t["sigAt"][0] - 1][0] in "FE" else "loop")
            for kind, detail in probs:
                res.violate("C14/%s/%s/%d-signal%s" % (kind, where, len(t["sigAt"]), "s" if len(t["sigAt"]) != 1 else ""), case, detail, replay=dict(cmd=ob["cmd"], model=dict(t, trace=" ".join(t["trace"]))))
    res.states, res.transitions, res.traces = max(tot_states, 1), max(tot_trans, 1), tot_traces
    res.rule = ("states/transitions = TLC's distinct states / states generated over all lattices; one evaluation = one terminal behaviour of the model "
                "(configuration x positions of <= MaxSigs signals) replayed on the hooked binary; distinct = hash of configuration + signal positions + binary label trace")
    res.bounds_done.append("; ".join("%s: MaxSigs=%d last%s outstep%s save%s wake%s drf%s" % l for l in lattices))
    return None


def replay(doc):
    print("re-run:", doc.get("replay"))
    return 1
