"""C10 - each record of the results file describes one instant, consistently.
Record structure: TLC terminal states of models/MainLoop.tla (no signals) replayed on the hooked binary (label trace + record counts).
Record contents: every stored quantity is recomputed in double precision from the file itself (projections from the stored phase
space, moments from the stored profiles, wake from the stored profile and impedance, CSR intensity from the stored spectrum),
axes and unit factors from the recorded machine parameters."""
import cmath
import math
import os
import struct
import sys

import vlib
sys.path.insert(0, os.path.join(vlib.VERIF, "proc"))
sys.path.insert(0, os.path.join(vlib.VERIF, "models"))
import pl  # noqa: E402
import conform  # noqa: E402

LEVEL = "model_checking"
C = 2.99792458e8
QE = 1.602e-19
EPS0 = 8.854187817e-12
ME = 510998.9
NPER = 8


def f32(x):
    return struct.unpack("f", struct.pack("f", x))[0]


AXES = dict(
    n=[16, 8, 15], shift=[(2, -1), (0, 0), (2, 0), (0, -1)], fill=[[1e-3], [1e-3, 2e-3], [1e-3, 0, 2e-3], [1e-3, 0]], outstep=[2, 1, 3, 5], save=[1, 0, 2],
    rot=[1.0, 0.5, 1.375, 1.3, 0.7], imp=["collimator", "none", "csr"], track=[False, True], renorm=[0, -1, 2],
    ring=["default", "R=5.559,H=184,V=1.4e6,E=2.5e9", "pq=10,F=2.7e6"],
    # how the run starts: the built-in Gaussian, a results file written beforehand, the same without any renormalisation
    start=["builtin", "file", "file-norenorm"],
    # cut-off of the recorded CSR spectrum: the program's default (23 GHz), none at all, one inside the recorded band
    cutoff=[None, 0, 3e11],
    # zero padding of the profile: the factor 2 every other case uses, none at all (circular wake), 1.5 and 3 (rounded up to a power of two), 2.6 taken literally
    padding=[2, 1, 1.5, 3, "2.6|RoundPadding=false"])
STARTFILE = {}
IMP = {"none": ["-G", 0], "collimator": ["-G", -0.03, "--UseCSR", "false", "--CollimatorRadius", 0.002], "csr": ["-G", -0.03]}
FS = 9e5    # synchrotron frequency dialled so that the bucket spacing is 1.39 phase spaces (keeps the multi-bunch transform short)


def configs(tier):
    base = {k: v[0] for k, v in AXES.items()}
    out = [dict(base)]
    keys = list(AXES)
    for k in keys:
        for v in AXES[k][1:]:
            c = dict(base)
            c[k] = v
            out.append(c)
    if vlib.wide(tier):   # deviation bound 2: every pair of deviations
        for i, k1 in enumerate(keys):
            for k2 in keys[i + 1:]:
                for v1 in AXES[k1][1:]:
                    for v2 in AXES[k2][1:]:
                        c = dict(base)
                        c[k1], c[k2] = v1, v2
                        out.append(c)
    import itertools
    for order in ((3, 4) if vlib.deep(tier) else (3,)):   # deviation bound 3 (thorough: 4): every triple (quadruple) of deviations
        for ks in itertools.combinations(keys, order):
            for vs in itertools.product(*[AXES[k][1:] for k in ks]):
                c = dict(base)
                for k, v in zip(ks, vs):
                    c[k] = v
                out.append(c)
    keep = []
    for c in out:
        if c["start"] != "builtin" and sum(1 for x in c["fill"] if x > 0) > 1:
            continue      # a start file holds one bunch
        if c["start"] == "file-norenorm":
            c["renorm"] = -1
        keep.append(c)
    return keep


def args_of(c, trackfile):
    pad = str(c.get("padding", 2)).split("|")
    a = ["-s", c["n"], "-N", NPER, "-T", c["rot"], "-n", c["outstep"], "--SavePhaseSpace", c["save"], "--padding", pad[0]] + (["--RoundPadding", "false"] if len(pad) > 1 else []) + ["-f", FS, "-d", 2e-5,
         "--PhaseSpaceShiftX", c["shift"][0], "--PhaseSpaceShiftY", c["shift"][1], "--RenormalizeCharge", c["renorm"], "--InitialDistZoom", 0.9]
    a += IMP[c["imp"]]
    if c.get("ring", "default") != "default":
        m = {"R": "--BendingRadius", "H": "--HarmonicNumber", "V": "--AcceleratingVoltage", "E": "--BeamEnergy", "pq": "--PhaseSpaceSize", "F": "--RevolutionFrequency"}
        for kv in c["ring"].split(","):
            k, v = kv.split("=")
            a += [m[k], v]
    if c.get("start", "builtin") != "builtin":
        a += ["-i", STARTFILE[c["n"]]]
    if c["track"]:
        a += ["--tracking", trackfile, "--FPTrack", 1]
    if c.get("cutoff") is not None:
        a += ["--CutoffFreq", c["cutoff"]]
    a += ["-I"] + c["fill"]
    return a


def derived(P, currents):
    E0, sE, frev, H, VRF = P["BeamEnergy"], P["BeamEnergySpread"], P["RevolutionFrequency"], P["HarmonicNumber"], P["AcceleratingVoltage"]
    Rb = P["BendingRadius"] if P["BendingRadius"] > 0 else C / (2 * math.pi * frev)
    V0 = QE * (E0 / ME) ** 4 / (3 * EPS0 * Rb)
    Veff = math.sqrt(VRF * VRF - V0 * V0)
    dE = sE * E0
    fs = P["SynchrotronFrequency"]
    if fs == 0:
        fs = frev * math.sqrt(P["alpha0"] * H * Veff / (2 * math.pi * E0))
    bl = C * dE / H / frev ** 2 / Veff * fs
    steps = P["StepsPerTs"] if not P.get("StepsPerRevolution") else P["StepsPerRevolution"] * frev / fs
    dt = 1 / (fs * steps)
    Ib = sum(x for x in currents if x > 0)
    return dict(bl=bl, dE=dE, fs=fs, dt=dt, revpart=frev * dt, Ib=sum(f32(x) for x in currents if x > 0), frev=frev, steps=steps, E0=E0, sE=sE, H=H,
                spacing_ps=(1.0 / (frev * H)) * C / bl / P["PhaseSpaceSize"])


def simpson(n, h):
    w = [h / 3] * n
    dc = 1
    for x in range(1, n - 1):
        w[x] = h / 3 * (3 + dc)
        dc = -dc
    return w


def check_file(res, case, key, doc, c, rp):
    """all content oracles for one results file; returns number of records checked"""
    D, A = doc["datasets"], doc["attrs"]
    P = {k.split("@")[1]: v for k, v in A.items() if k.startswith("/Info/Parameters@")}
    n = c["n"]
    bunches = [x for x in c["fill"] if x > 0]
    nb = len(bunches)
    d = derived(P, c["fill"])
    V = lambda k, what, detail: res.violate("%s/%s" % (key, k), case, detail, replay=rp)  # noqa: E731

    # ---- recorded parameters = launched values
    launched = dict(GridSize=n, StepsPerTs=NPER, rotations=c["rot"], outstep=c["outstep"], SavePhaseSpace=c["save"], padding=float(str(c.get("padding", 2)).split("|")[0]), SynchrotronFrequency=FS,
                    PhaseSpaceShiftX=c["shift"][0], PhaseSpaceShiftY=c["shift"][1], RenormalizeCharge=c["renorm"], InitialDistZoom=0.9, DampingTime=2e-5)
    for k, v in launched.items():
        if k not in P or abs(P[k] - v) > 1e-6 * max(1, abs(v)):
            V("parameters/%s" % k, 0, "/Info/Parameters@%s = %s, launched with %s" % (k, P.get(k), v))
    # ---- axes: the grid coordinates actually used
    pq = P["PhaseSpaceSize"]
    dq = pq / (n - 1)
    z, e = D["/Info/AxisValues_z"]["data"], D["/Info/AxisValues_E"]["data"]
    for name, ax, sh in (("AxisValues_z", z, c["shift"][0]), ("AxisValues_E", e, c["shift"][1])):
        want = [-sh * dq - pq / 2 + i * dq for i in range(n)]
        if len(ax) != n or max(abs(a - b) for a, b in zip(ax, want)) > 2e-6 * pq:
            V("axis/%s" % name, 0, "/Info/%s = %s..., grid coordinates %s... (shift %s)" % (name, [round(x, 5) for x in ax[:3]], [round(x, 5) for x in want[:3]], sh))
    # ---- unit factors implied by the recorded machine parameters
    units = {"/Info/AxisValues_z@Meter": d["bl"], "/Info/AxisValues_z@Second": d["bl"] / C, "/Info/AxisValues_E@ElectronVolt": d["dE"],
             "/Info/AxisValues_t@Second": 1 / d["fs"], "/Info/AxisValues_t@Turn": d["frev"] / d["fs"], "/PhaseSpace/axis0@Second": 1 / d["fs"],
             "/BunchPopulation/data@Ampere": d["Ib"], "/BunchPopulation/data@Coulomb": d["Ib"] / d["frev"], "/BunchLength/data@Meter": d["bl"],
             "/BunchPosition/data@Second": d["bl"] / C, "/EnergySpread/data@ElectronVolt": d["dE"], "/EnergyAverage/data@ElectronVolt": d["dE"],
             "/BunchProfile/data@AmperePerNBL": d["Ib"], "/PhaseSpace/data@CoulombPerNBLPerNES": d["Ib"] / d["frev"]}
    if "/WakePotential/data@Volt" in A:
        units["/WakePotential/data@Volt"] = f32(dq) * d["dE"] / f32(d["revpart"])
        units["/CSR/Spectrum/data@WattPerHertz"] = 2 * d["Ib"] ** 2 / d["frev"]
        units["/CSR/Intensity/data@Watt"] = 2 * d["Ib"] ** 2 / d["frev"] * (C / d["bl"])
    for k, v in units.items():
        if k not in A or abs(A[k] - v) > 2e-5 * abs(v):
            V("unit/%s" % k.split("@")[1], 0, "%s = %s, implied by the recorded parameters: %.9g" % (k, A.get(k), v))
    # ---- records
    t = D["/Info/AxisValues_t"]["data"]
    tp = D["/PhaseSpace/axis0"]["data"]
    # the time axis lists every outstep-th step from 0 plus the final step, in synchrotron periods; the number of steps is
    # ceil(steps per period * T) with T held in single precision, as the program documents by its own log ("k/T")
    laststep = math.ceil(NPER * f32(c["rot"]) - 1e-9)
    want_t = [k / NPER for k in range(0, laststep) if c["outstep"] > 0 and k % c["outstep"] == 0] + [laststep / NPER]
    if len(t) != len(want_t) or max(abs(a - b) for a, b in zip(t, want_t)) > 1e-6:
        V("time-axis", 0, "/Info/AxisValues_t = %s, output steps / steps per period = %s" % ([round(x, 5) for x in t], want_t))
    if not tp or abs(tp[-1] - laststep / NPER) > 1e-6 or any(min(abs(x - y) for y in want_t + [0.0]) > 1e-6 for x in tp):
        V("phase-space-axis", 0, "/PhaseSpace/axis0 = %s is not a selection of the output instants ending with the final step %s" % ([round(x, 5) for x in tp], laststep / NPER))
    ws = simpson(n, f32(dq))
    bp = pl.rows(doc, "/BunchProfile/data")
    ep = pl.rows(doc, "/EnergyProfile/data")
    ps = pl.rows(doc, "/PhaseSpace/data")
    pop, pos, ln = pl.rows(doc, "/BunchPopulation/data"), pl.rows(doc, "/BunchPosition/data"), pl.rows(doc, "/BunchLength/data")
    ea, es = pl.rows(doc, "/EnergyAverage/data"), pl.rows(doc, "/EnergySpread/data")
    worst = res.coverage.setdefault("worst", {})

    def upd(k, v):
        worst[k] = max(worst.get(k, 0), v)
    for it, tt in enumerate(t):
        step = round(tt * NPER)
        renorm_step = c["renorm"] > 0 and step % c["renorm"] == 0
        suffix = "/at-renormalisation-step" if renorm_step else ""
        for b in range(nb):
            prof = bp[it][b * n:(b + 1) * n]
            epr = ep[it][b * n:(b + 1) * n]
            pmax, emax = max(abs(x) for x in prof), max(abs(x) for x in epr)
            if tt in tp:   # projections of the stored phase space
                g = ps[tp.index(tt)][b * n * n:(b + 1) * n * n]
                px = [sum(g[x * n + y] * ws[y] for y in range(n)) for x in range(n)]
                py = [sum(g[x * n + y] * ws[x] for x in range(n)) for y in range(n)]
                dx = max(abs(a - b2) for a, b2 in zip(px, prof)) / pmax
                dy = max(abs(a - b2) for a, b2 in zip(py, epr)) / emax
                upd("profile_vs_projection", max(dx, dy))
                if dx > 5e-6:
                    V("bunch-profile-is-not-the-projection" + suffix, it, "record %d (step %d) bunch %d: /BunchProfile deviates from the projection of the stored /PhaseSpace by %.3g of its peak" % (it, step, b, dx))
                if dy > 5e-6:
                    V("energy-profile-is-not-the-projection" + suffix, it, "record %d (step %d) bunch %d: /EnergyProfile deviates from the projection of the stored /PhaseSpace by %.3g of its peak" % (it, step, b, dy))
            q = sum(p_ * w for p_, w in zip(prof, ws))
            if abs(q - pop[it][b]) > 5e-6 * abs(q):
                V("population" + suffix, it, "record %d bunch %d: /BunchPopulation %.8g, integral of the stored profile %.8g" % (it, b, pop[it][b], q))
            mq = sum(p_ * zz for p_, zz in zip(prof, z)) * f32(dq) / pop[it][b]
            vq = sum(p_ * (zz - mq) ** 2 for p_, zz in zip(prof, z)) * f32(dq) / pop[it][b]
            # the energy axis actually used (the stored one is checked separately above)
            eax = [-c["shift"][1] * dq - pq / 2 + i * dq for i in range(n)]
            mp = sum(p_ * pp for p_, pp in zip(epr, eax)) * f32(dq) / pop[it][b]
            vp = sum(p_ * (pp - mp) ** 2 for p_, pp in zip(epr, eax)) * f32(dq) / pop[it][b]
            for name, got, want in (("position", pos[it][b], mq), ("length", ln[it][b], math.sqrt(max(vq, 0))), ("mean-energy", ea[it][b], mp), ("energy-spread", es[it][b], math.sqrt(max(vp, 0)))):
                upd("moment_" + name, abs(got - want))
                if abs(got - want) > 3e-6:
                    V("moment/%s" % name + suffix, it, "record %d (step %d) bunch %d: stored %s %.8g, moment of the stored profile %.8g" % (it, step, b, name, got, want))
    nrec = len(t)
    # ---- wake potential = convolution of the stored profile with the stored impedance, absolute strength from the parameters
    if "/Impedance/data/real" in D and D["/Impedance/data/real"]["dims"][0] > 1 and D["/WakePotential/data"]["dims"][0] == len(t):
        zr, zi = D["/Impedance/data/real"]["data"], D["/Impedance/data/imag"]["data"]
        # the transform length N: the file stores the N/2 non-negative-frequency samples, so N is 2*len - or 2*len+1 when the padding is taken literally
        # (RoundPadding=false) and comes out odd; the launched padding decides for a single bunch
        N = 2 * len(zr)
        if "RoundPadding=false" in str(c.get("padding", 2)) and len(c["fill"]) == 1 and math.ceil(n * float(str(c["padding"]).split("|")[0]) - 1e-9) == N + 1:
            N += 1
        buckets = D["/Info/BucketNumbers"]["data"]
        spacing = round(n * d["spacing_ps"]) if len(c["fill"]) > 1 else 0
        wk = pl.rows(doc, "/WakePotential/data")
        # a train padded literally: the file does not tell whether the length is 2*len or 2*len+1 - the stored wake is the convolution for one of the two
        Ncands = [N, N + 1] if ("RoundPadding=false" in str(c.get("padding", 2)) and len(c["fill"]) > 1) else [N]     # (a train: several buckets, however many of them are filled)
        for it in range(nrec):
            train = {}
            for b in range(nb):
                for x in range(n):
                    train[buckets[b] * spacing + x] = bp[it][b * n + x]
            best = None
            for N in Ncands:
                s = d["Ib"] * d["dt"] * C / d["bl"] / (f32(dq) * d["sE"] * d["E0"]) / N
                F = [sum(v * cmath.exp(-2j * math.pi * ((k * j) % N) / N) for j, v in train.items()) for k in range(len(zr))]
                mxw = 0
                errs = []
                for b in range(nb):
                    for x in range(n):
                        j = buckets[b] * spacing + x
                        w = (complex(zr[0], zi[0]) * F[0]).real + 2 * sum((complex(zr[k], zi[k]) * F[k] * cmath.exp(2j * math.pi * ((k * j) % N) / N)).real for k in range(1, len(zr)))
                        errs.append(abs(wk[it][b * n + x] - s * w))
                        mxw = max(mxw, abs(s * w))
                if best is None or (mxw > 0 and max(errs) / mxw < best[0]):
                    best = (max(errs) / mxw if mxw > 0 else 0, errs, mxw)
            _, errs, mxw = best
            step = round(t[it] * NPER)
            renorm_step = c["renorm"] > 0 and step % c["renorm"] == 0
            if mxw > 0:
                upd("wake_vs_convolution", max(errs) / mxw)
                if max(errs) > 3e-6 * mxw:
                    V("wake-is-not-the-convolution" + ("/at-renormalisation-step" if renorm_step else "") + ("/nb>1" if nb > 1 else ""), it,
                      "record %d (step %d): /WakePotential deviates from s*IDFT(Z*DFT(stored profile train)) by %.3g of its peak (s recomputed from the recorded parameters)" % (it, step, max(errs) / mxw))
    # ---- CSR intensity = sum of the stored spectrum, per bunch
    if "/CSR/Spectrum/data" in D and D["/CSR/Spectrum/data"]["dims"][0] == len(t) and len(D["/Info/AxisValues_f"]["data"]) > 1:
        fa = D["/Info/AxisValues_f"]["data"]
        df = fa[1] - fa[0]
        sp, inten = pl.rows(doc, "/CSR/Spectrum/data"), pl.rows(doc, "/CSR/Intensity/data")
        m = len(fa)
        for it in range(nrec):
            for b in range(nb):
                ssum = df * sum(sp[it][b * m:(b + 1) * m])
                # the one bin that is not stored (k = N/2) - all configurations here radiate into free space:
                # S_top = dq^2 * Re Z_fs(N/2) * |F(N/2)|^2 with the free-space formula 306.3*(f/f0)^(1/3)
                Nr = 2 * m
                if "RoundPadding=false" in str(c.get("padding", 2)) and math.ceil(n * float(str(c["padding"]).split("|")[0]) - 1e-9) == Nr + 1:
                    Nr += 1
                fmax = n * C / (pq * d["bl"])
                f0 = C / (2 * math.pi * (P["BendingRadius"] if P["BendingRadius"] > 0 else C / (2 * math.pi * d["frev"])))
                ztop = 306.3 * ((Nr // 2) * (fmax / f0 / (Nr - 1))) ** (1.0 / 3)
                ftop = abs(sum(v * cmath.exp(-2j * math.pi * (Nr // 2) * x / Nr) for x, v in enumerate(bp[it][b * n:(b + 1) * n])))      # even length: sum of v (-1)^x
                fc = P.get("CutoffFreq", 0)
                ftop_hz = (Nr // 2) / (Nr - 1.0) / f32(dq) * (C / d["bl"])
                cut = (1 - math.exp(-(ftop_hz / fc) ** 2)) if fc > 0 else 1.0
                ssum += df * f32(dq) ** 2 * ztop * ftop * ftop * cut
                if inten[it][b] > 0 or ssum > 0:
                    rel = abs(inten[it][b] - ssum) / max(inten[it][b], ssum)
                    upd("csr_intensity_vs_spectrum", rel if b == 0 else 0)
                    if rel > 1e-4:
                        V("csr-intensity-is-not-the-sum-of-the-stored-spectrum" + ("/bunch>0" if b > 0 else "/bunch0"), it,
                          "record %d bunch %d: /CSR/Intensity %.6g, df*sum(/CSR/Spectrum row) %.6g" % (it, b, inten[it][b], ssum))
                if any(x < 0 for x in sp[it][b * m:(b + 1) * m]):
                    V("negative-csr-spectrum", it, "record %d bunch %d" % (it, b))
    return nrec


def structure(res, tier, exe_hook):
    """record structure: every behaviour of the model without signals, replayed on the hooked binary"""
    lasts = [0, 1, 3, 4, 5, 8, 11] if vlib.wide(tier) else [0, 4, 5, 11]
    outs = [0, 1, 2, 3, 5] if vlib.wide(tier) else [1, 2, 3, 5]
    saves = [0, 1, 2]
    terms, st = conform.run_tlc("c10", 0, lasts, outs, saves, [True, False], [True, False])
    res.coverage["tlc"] = dict(generated=st["states"], distinct=st["distinct"], depth=st["depth"], terminal_behaviours=len(terms), ok=st["ok"])
    if not st["ok"]:
        res.violate("C10/model/TLC-reports-an-error", "structure lattice", st.get("tail", "")[-600:])
        return 0, 0, 0
    wd = pl.workdir("c10s")

    def do(it):
        i, tm = it
        ob = conform.observe(exe_hook, tm["cfg"], [], wd, "s%d" % i)
        return tm, ob, conform.compare(tm, ob, None)
    n = 0
    for tm, ob, probs in pl.pmap(do, list(enumerate(terms))):
        n += 1
        case = "structure cfg=%s" % tm["cfg"]
        res.eval(case, pl.chash(case, ob["labels"]), trivial=False)
        for kind, detail in probs:
            res.violate("C10/structure/%s" % kind, case, detail, replay=dict(cmd=ob["cmd"], model=dict(tm, trace=" ".join(tm["trace"]))))
        # the axes a dataset DECLARES (soft links <group>/axisK -> axis dataset): a dataset has as many entries along dimension K as the axis it names
        doc = ob["doc"]
        if "error" not in doc:
            for lk, target in sorted(doc.get("links", {}).items()):
                grp, ax = lk.rsplit("/axis", 1)
                d, a = doc["datasets"].get(grp + "/data"), doc["datasets"].get(target)
                # axis0 is the record dimension (the other axis links name the last dimension, with the bunch index in between); a dataset that was
                # never written (no wake impedance, no step executed) holds no records and describes nothing
                if d is None or a is None or ax != "0" or not d["dims"] or d["dims"][0] == 0:
                    continue
                if d["dims"][int(ax)] != (a["dims"][0] if a["dims"] else 0):
                    res.violate("C10/structure/declared-axis-length%s" % grp, case, "%s/data has %d entries along dimension %s but names %s (%d entries) as its axis" % (grp, d["dims"][int(ax)], ax, target, a["dims"][0] if a["dims"] else 0),
                                replay=dict(cmd=ob["cmd"]))
    return st["distinct"], st["states"], n


def run(res, tier):
    res.assumptions += [
        "the projection quadrature (Simpson-type weights h/3*(1,4,2,...,1)) and the rectangle sums of the moments are the code's own definitions; they are re-evaluated in double precision on the stored data",
        "the CSR intensity is compared with df*(sum of the stored half spectrum + the single non-stored bin N/2, recomputed from the stored profile and the free-space CSR formula: all configurations here radiate into free space)",
        "bunch currents are not recorded in /Info/Parameters; the launched values are used for Ampere/Coulomb/WattPerHertz and the wake strength",
        "8 steps per synchrotron period (dyadic rotations: the single-precision step count is the intended one); synchrotron frequency 0.9 MHz keeps multi-bunch transforms short"]
    exe = pl.build.build_bin("plain")
    exe_hook = pl.build.build_bin("hook")
    wd = pl.workdir("c10")
    trackfile = os.path.join(wd, "track.txt")
    with open(trackfile, "w") as f:
        f.write("0.5 0.3\n-1.0 0.2\n1.5 -0.7\n")
    cfgs = configs(tier)
    for n in AXES["n"]:     # start files: an evolved, narrow distribution (not the built-in Gaussian) per grid size
        r0 = pl.run(exe, ["-s", n, "-N", NPER, "-T", 0.625, "-n", 5, "--SavePhaseSpace", 1, "--padding", 2, "-f", FS, "-d", 2e-5, "--InitialDistZoom", 0.6, "-G", 0], wd, out="start%d.h5" % n)
        STARTFILE[n] = r0["h5"]
        if r0["rc"] != 0 or not os.path.exists(r0["h5"]):
            res.violate("C10/start-file-run-failed", "start%d.h5" % n, r0["log"][-300:], replay=dict(cmd=r0["cmd"]))
    # one warm-up per distinct transform-length situation
    seen = set()
    warm = []
    for c in cfgs:
        k = (c["n"], len(c["fill"]), c["imp"])
        if k not in seen:
            seen.add(k)
            warm.append(args_of(dict(c, rot=0.125, track=False, start="builtin"), trackfile))
    pl.warm(exe, warm, "c10warm")
    pl.warm(exe_hook, [conform.args_of(dict(last=1, outstep=1, h5save=1, wake=w, drf=False)) for w in (True, False)], "c10warmh")
    states, trans, traces = structure(res, tier, exe_hook)

    def do(ic):
        i, c = ic
        r = pl.run(exe, args_of(c, trackfile), wd, out="o%d.h5" % i, timeout=900)
        doc = pl.h5(r["h5"], maxv=2000000) if r["rc"] == 0 else None
        for ext in ("", ".cfg", ".log"):
            try:
                os.remove(r["h5"] + ext)
            except OSError:
                pass
        return c, r, doc
    nrec = 0
    for c, r, doc in pl.pmap(do, list(enumerate(cfgs))):
        case = " ".join("%s=%s" % (k, str(v).replace(" ", "")) for k, v in c.items())
        rp = dict(cmd=r["cmd"])
        if doc is None or "error" in doc:
            res.violate("C10/run-failed", case, "rc=%s %s" % (r["rc"], r["log"][-300:]), replay=rp)
            continue
        k = check_file(res, case, "C10/content", doc, c, rp)
        nrec += k
        res.eval(case, pl.chash(case, doc["datasets"]["/BunchProfile/data"]["rowhash"]), trivial=False)
    res.coverage["records_checked"] = nrec
    res.states, res.transitions, res.traces = max(states, 1), max(trans, 1), traces
    res.rule = ("structure: one evaluation = one terminal behaviour of the TLA+ model (no signals) replayed on the hooked binary; content: one evaluation = one results file of the real binary, "
                "every record of which is recomputed from the file itself; configurations = base + all single deviations (+ all pairs in the thorough tier) over "
                "grid size, grid shifts, filling pattern, output cadence, save cadence, step count, impedance, tracking, renormalisation")
    res.bounds_done.append("%d content configurations, %d records; structure lattice replayed: %d behaviours" % (len(cfgs), nrec, traces))
    # ---- long time axes with steps per period that are not a power of two: thousands of records, each stamped (its step) / (steps per period) - the exact
    #      quotient rounded once to the stored precision, not something accumulated on the way
    import struct

    def f32r(x):
        return struct.unpack("f", struct.pack("f", x))[0]
    longs = [(600, 2, 40.0), (50, 5, 30.0), (1000, 100, 2.0)] + ([(600, 1, 60.0)] if vlib.deep(tier) else [])

    def dolong(lc):
        N, o, T = lc
        r = pl.run(exe, ["-s", 16, "-N", N, "-T", T, "-n", o, "-G", 0, "-f", FS, "-d", 2e-5, "--padding", 2], wd, out="long_%d_%d.h5" % (N, o), timeout=900)
        d_ = pl.h5(r["h5"], maxv=200000) if r["rc"] == 0 else None
        for ext in ("", ".cfg", ".log"):
            try:
                os.remove(r["h5"] + ext)
            except OSError:
                pass
        return lc, r, d_
    for (N, o, T), r, d_ in pl.pmap(dolong, longs):
        case = "long time axis: -N %d -n %d -T %g" % (N, o, T)
        rp = dict(cmd=r["cmd"])
        if d_ is None or "error" in d_:
            res.violate("C10/run-failed", case, "rc=%s %s" % (r["rc"], r["log"][-200:]), replay=rp)
            continue
        t = d_["datasets"]["/Info/AxisValues_t"]["data"]
        last = math.ceil(N * f32(T) - 1e-9)
        steps_ = [k for k in range(0, last) if k % o == 0] + [last]
        res.eval(case, pl.chash(case, len(t)), trivial=False)
        res.coverage["records_on_the_long_time_axes"] = res.coverage.get("records_on_the_long_time_axes", 0) + len(t)
        if len(t) != len(steps_):
            res.violate("C10/structure/time-axis/long-run/record-count", case, "%d time stamps for %d output instants" % (len(t), len(steps_)), replay=rp)
            continue
        for k, (got, st) in enumerate(zip(t, steps_)):
            if got != f32r(st / N) and abs(got - st / N) > 1.3e-7 * max(st / N, 1e-3):
                res.violate("C10/structure/time-axis/long-run/stamp-is-not-step-over-steps-per-period", case, "record %d (step %d): stamped %.9g, step / steps per period = %.9g" % (k, st, got, st / N), replay=rp)
                break
            if k and not got > t[k - 1]:
                res.violate("C10/structure/time-axis/long-run/not-increasing", case, "record %d stamped %.9g after %.9g" % (k, got, t[k - 1]), replay=rp)
                break
        for name in ("/BunchLength/data", "/EnergySpread/data", "/BunchProfile/data"):
            if d_["datasets"][name]["dims"][0] != len(t):
                res.violate("C10/structure/dataset-length", case, "%s has %d records, the time axis %d" % (name, d_["datasets"][name]["dims"][0], len(t)), replay=rp)
    res.bounds_done.append("long time axes: %s (steps per period, output cadence, periods): every stamp = step / steps per period to one rounding, strictly increasing" % longs)
    return None


def replay(doc):
    print("re-run:", doc.get("replay"))
    return 1
