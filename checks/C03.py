"""C03 - the centroid rotates by 2*pi/steps per step and the orbit closes (API level; process level through /BunchPosition, /EnergyAverage)"""
import math
import os
import sys

import vlib
from checks import _api
sys.path.insert(0, os.path.join(vlib.VERIF, "proc"))
import pl  # noqa: E402

LEVEL = "exploration"


def gauss_start(n, sx, sy, q0, p0, w):
    d = 12.0 / (n - 1)
    qc, pc = -sx * d, -sy * d
    v = []
    for x in range(n):
        for y in range(n):
            q, p = qc - 6 + x * d, pc - 6 + y * d
            v.append(math.exp(-0.5 * ((q - q0) ** 2 + 1.3 * (p - p0) ** 2) / (w * w)))
    s = sum(v) * d * d
    return [x / s for x in v]


def process_level(res, tier):
    """the real binary: main() derives angle, voltages and drift itself; centroid from the stored moments"""
    exe = pl.build.build_bin("plain")
    wd = pl.workdir("c03")
    stepss = [16, 32, 64] if vlib.wide(tier) else [32]
    ns = [32, 33, 48] if vlib.wide(tier) else [32, 33]
    shifts = [(0, 0), (2, -1), (-3, 2)] if vlib.wide(tier) else [(0, 0), (2, -1)]
    starts = [(1.0, 0.0), (-0.6, 0.8), (0.0, -1.1)] if vlib.wide(tier) else [(1.0, 0.0), (-0.6, 0.8)]
    cases = []
    for steps in stepss:
        for n in ns:
            for sx, sy in shifts:
                for si, (q0, p0) in enumerate(starts):
                    for rf in ("linear", "sin"):
                        for per in ("Ts", "rev"):
                            if per == "rev" and not (n == ns[0] and (sx, sy) == shifts[0]):
                                continue
                            # synchrotron frequency: close to what the default alpha0 implies, and far from it (main() then derives alpha0 from -f)
                            for fs in ((45000.0, 30000.0) if (sx, sy) == shifts[0] and si == 0 else (45000.0,)):
                                cases.append((steps, n, sx, sy, si, q0, p0, rf, per, fs, 12, None))
                            if per == "Ts" and si == 0:      # another phase-space size
                                cases.append((steps, n, sx, sy, si, q0, p0, rf, per, 45000.0, 9, None))
                            # RF voltages close to the radiation loss per turn (45.5 kV for the default ring): the synchronous phase is far from zero,
                            # the focusing slope of the sinusoidal voltage is V_RF cos(phi_s) - the rotation angle per step must not depend on it
                            # other rings: low energy with a small momentum compaction (1/gamma^2 is 9 % of alpha0), given by alpha0 and given by -f;
                            # a high-energy ring with other harmonic number, revolution frequency and voltage
                            if per == "Ts" and (sx, sy) == shifts[0] and si == 0:
                                for ring in (("--BeamEnergy", 1e8, "--alpha0", 3e-4), ("--BeamEnergy", 1e8), ("--BeamEnergy", 2.5e9, "--HarmonicNumber", 184, "--RevolutionFrequency", 2.7e6, "--AcceleratingVoltage", 1.4e6, "--BendingRadius", 5.559, "--alpha0", 9e-3),
                                             # higher orders of the momentum compaction at sizes without effect on a centroid at 1 sigma (the cubic term without a quadratic one, and both),
                                             # and the RF noise machinery switched on at an amplitude without effect (the dynamic RF map instead of the static one)
                                             ("--alpha2", 0.5), ("--alpha1", 1e-3, "--alpha2", -0.5), ("--RFAmplitudeSpread", 1e-9)):
                                    cases.append((steps, n, sx, sy, si, q0, p0, rf, per, 45000.0, 12, ring))
                            if per == "Ts" and (sx, sy) == shifts[0] and si == 0:
                                for vrf in (3e5, 1.5e5):     # (at 100 kV an amplitude of 0.25 is no longer small: the potential is visibly asymmetric)
                                    cases.append((steps, n, sx, sy, si, q0, p0, rf, per, 45000.0, 12, vrf))

    def do(c):
        steps, n, sx, sy, si, q0, p0, rf, per, fs, pq, vrf = c
        sc = 1.0 if rf == "linear" else 0.25
        tag = "s%d_n%d_%g_%g_%d_%s_%s_%g_%g_%s" % (steps, n, sx, sy, si, rf, per, fs, pq, abs(hash(vrf)) if isinstance(vrf, tuple) else vrf)
        start = os.path.join(wd, "start_%s.h5" % tag)
        pl.write_start_h5(start, n, gauss_start(n, sx, sy, q0 * sc, p0 * sc, 0.4 if (vrf and not isinstance(vrf, tuple)) else 0.7))   # low voltage: a short blob (the voltage's curvature over a long one moves the centre of the rotation)
        a = ["-s", n, "-T", 1, "-n", 1, "-G", 0, "-d", 0, "--FPType", 0, "--RenormalizeCharge", -1, "-i", start, "-f", fs,
             "--PhaseSpaceShiftX", sx, "--PhaseSpaceShiftY", sy, "--InterpolationPoints", 4, "--LinearRF", "true" if rf == "linear" else "false", "--padding", 2, "--PhaseSpaceSize", pq]
        if isinstance(vrf, tuple):          # ring parameters
            a += list(vrf)
            if "--alpha0" in vrf:            # the synchrotron frequency follows from alpha0, not the other way round
                i = a.index("-f"); del a[i:i + 2]
        elif vrf:
            a += ["--AcceleratingVoltage", vrf]
        if per == "Ts":
            a += ["-N", steps]
        else:   # steps given per revolution: steps per synchrotron period = k*f_rev/fs ; -N deliberately set to something else
            a += ["--StepsPerRevolution", steps * fs / 9e6, "-N", 1000]
        r = pl.run(exe, a, wd, out="out_%s.h5" % tag)
        doc = pl.h5(r["h5"], maxv=5000) if r["rc"] == 0 else None
        for f in (start, r["h5"], r["h5"] + ".cfg", r["h5"] + ".log"):
            try:
                os.remove(f)
            except OSError:
                pass
        return c, r, doc

    for c, r, doc in pl.pmap(do, cases):
        steps, n, sx, sy, si, q0, p0, rf, per, fs, pq, vrf = c
        case = "process steps=%d n=%d shift=%g,%g start=%d rf=%s stepsper=%s fs=%g%s%s" % (steps, n, sx, sy, si, rf, per, fs, "" if pq == 12 else " phasespacesize=%g" % pq, (" ring=%s" % "_".join(str(x).strip("-") for x in vrf)) if isinstance(vrf, tuple) else " V_RF=%g" % vrf if vrf else "")
        rp = dict(cmd=r["cmd"], note="start file: Gaussian blob at (%g,%g)*%s, width %s, written by tools/h5json --write" % (q0, p0, "1" if rf == "linear" else "0.25", "0.4" if (vrf and not isinstance(vrf, tuple)) else "0.7"))
        if doc is None or "error" in doc:
            res.violate("C03/process/run-failed", case, "rc=%s %s" % (r["rc"], r["log"][-200:]), replay=rp)
            continue
        q = doc["datasets"]["/BunchPosition/data"]["data"]
        p = doc["datasets"]["/EnergyAverage/data"]["data"]
        res.eval(case, pl.chash(case, q, p), trivial=False)
        a = 2 * math.pi / steps
        dq = float(pq) / (n - 1)
        key = "C03/process/%s/%s/%s" % (rf, "StepsPerRevolution" if per == "rev" else "StepsPerTs", "shifted" if (sx or sy) else "centred") + ("/other-ring" if isinstance(vrf, tuple) else "/low-RF-voltage" if vrf else "")
        if len(q) < steps + 1:
            res.violate(key + "/records", case, "%d records for %d steps" % (len(q), steps), replay=rp)
            continue
        r0 = math.hypot(q[0], p[0])
        phase = 0.0
        bad = False
        for k in range(1, steps + 1):
            wq = q[0] * math.cos(k * a) - p[0] * math.sin(k * a)
            wp = q[0] * math.sin(k * a) + p[0] * math.cos(k * a)
            err = math.hypot(q[k] - wq, p[k] - wp)
            tol = (0.6 * a + a * a + 4e-3) * r0 + 0.03 * dq
            res.coverage["worst_process_step_error_over_tol"] = max(res.coverage.get("worst_process_step_error_over_tol", 0), err / tol)
            if err > tol:
                res.violate(key + "/not-the-rotation", case, "step %d: recorded centroid (%.5f, %.5f), exact rotation (%.5f, %.5f), error %.4g > %.4g" % (k, q[k], p[k], wq, wp, err, tol), replay=rp)
                bad = True
                break
            d = math.atan2(p[k], q[k]) - math.atan2(p[k - 1], q[k - 1])
            while d <= -math.pi:
                d += 2 * math.pi
            while d > math.pi:
                d -= 2 * math.pi
            phase += d
        if not bad:
            perr = abs(phase - 2 * math.pi)
            res.coverage["worst_process_phase_error_over_tol"] = max(res.coverage.get("worst_process_phase_error_over_tol", 0), perr / (2 * a * a + 0.015))
            if perr > 2 * a * a + 0.015:
                res.violate(key + "/phase-advance", case, "phase accumulated over one period = %.5f rad, off 2 pi by %.4g" % (phase, perr), replay=rp)
    res.bounds_done.append("process level: %d runs (steps %s x n %s x shifts x starts x {linear, sinusoidal} x {StepsPerTs, StepsPerRevolution})" % (len(cases), stepss, ns))


def run(res, tier):
    res.assumptions += [
        "sense of rotation pinned to the code (drift moves positive energy to smaller position); C05 fixes it relative to the wake",
        "interpolation orders >= 2 (they transport the first moment exactly); charge stays clear of the border by construction",
        "sinusoidal model: start radius <= 0.3 natural units ('small amplitudes')"]
    c = _api.run(res, tier, ["C03_rotation"])
    process_level(res, tier)
    return c


replay = _api.replay
