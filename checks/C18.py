"""C18 - wake / CSR spectrum depend on the current profile only (explicit-state search over call histories)"""
from checks import _api
LEVEL = "model_checking"


def run(res, tier):
    res.assumptions += [
        "profile alphabet of 3 per bunch (impulse, dense, sawtooth+spike); one fixed complex impedance",
        "FFTW wisdom for every transform length is created in a sequential warm-up pass first, so that history and fresh objects use the same plans",
        "outputs are compared when they are requested; a later CSR request legitimately overwrites the shared spectrum buffer"]
    c = _api.run(res, tier, ["C18_history"], warm=True, blocks=(1,))
    res.states = int(res.coverage.get("states", 0))
    res.transitions = int(res.coverage.get("transitions", 0))
    res.traces = res.transitions     # every edge of the search is executed on the real object (histories are replayed on the implementation)
    return c


replay = _api.replay
