"""C01 - every transport step conserves charge (column sums of the real operators)"""
from checks import _api
LEVEL = "exploration"


def run(res, tier):
    res.assumptions += [
        "displacements from the alphabet in harness/inov.hpp: whole, fractional, tiny, near-whole, half the grid and more, beyond the grid (nothing is interior then and nothing is judged)",
        "source and destination cells of the tested impulses lie in [1, n-2] ('clear of the grid border')",
        "rows are independent (checked differentially by C08); FP interior columns are 4 .. n-5",
        "OpenCL paths compiled out"]
    c1 = _api.run(res, tier, ["W_weights"], extra=["--prop", "C01"], blocks=(1,))
    c2 = _api.run(res, tier, ["C01_conserve"])
    return lambda v: (c1(v) if (v.get("replay") or {}).get("harness") == "W_weights" else c2(v))


replay = _api.replay
