"""C12 - observing the simulation does not change it; equal inputs give equal outputs (process level, bitwise)"""
import itertools
import os
import sys

import vlib
sys.path.insert(0, os.path.join(vlib.VERIF, "proc"))
import pl  # noqa: E402

LEVEL = "exploration"
TIME_DS = ["/BunchLength/data", "/BunchPopulation/data", "/BunchPosition/data", "/BunchProfile/data", "/CSR/Intensity/data",
           "/CSR/Spectrum/data", "/EnergyAverage/data", "/EnergyProfile/data", "/EnergySpread/data", "/WakePotential/data"]
BASE = ["-N", 8, "-T", 1.25, "--padding", 2,
        "-I", 2e-3, "--InitialDistZoom", 0.8, "--PhaseSpaceShiftX", 1, "--PhaseSpaceShiftY", -1, "-d", 0.002]
IMP = {"collimator": ["-G", 0.03, "--UseCSR", "false", "--CollimatorRadius", 0.002], "none": ["-G", 0.03, "--UseCSR", "false"], "csr": ["-G", 0.03]}


def args_of(c, trackfile):
    a = ["-s", c.get("n", 16)] + list(BASE) + IMP[c.get("imp", "collimator")] + ["-n", c["outstep"], "--SavePhaseSpace", c["save"], "--RenormalizeCharge", c["renorm"],
                      "--LinearRF", "true" if c["rf"] == "linear" else "false", "--verbose", "true" if c["verbose"] else "false"]
    if c["track"] is not None:
        a += ["--tracking", trackfile, "--FPTrack", c["track"]]
    if c.get("start"):   # start from a results file written beforehand (an evolved distribution whose charge is not exactly one)
        a += ["-i", c.get("startpath") or STARTFILE[c.get("n", 16)]]
    if c.get("start") == 2:   # ... from an explicitly chosen record of it (the file holds a phase space for every step)
        a += ["--InitialDistStep", 2]
    for x in XTRA[c.get("x", 0)]:
        if x == "--padding":      # replaces the base value
            i = a.index("--padding"); del a[i:i + 2]
        if x == "-I":
            i = a.index("-I"); del a[i:i + 2]
        if x == "--InitialDistZoom":
            i = a.index("--InitialDistZoom"); del a[i:i + 2]
        if x in ("-N", "-T"):
            i = a.index(x); del a[i:i + 2]
    a += XTRA[c.get("x", 0)]
    if c.get("mod"):     # deterministic RF phase modulation (the modulation record is flushed in the output block)
        a += ["--RFPhaseModAmplitude", 0.01, "--RFPhaseModFrequency", 130000.0]
    return a


STARTFILE = {}
# rarely used options that belong to the physics / numerics of a run: whatever they are set to, observing must not change the results
XTRA = [[], ["--CutoffFreq", 0], ["--CutoffFreq", 5e10], ["--InterpolationPoints", 3], ["--InterpolateClamped", "true"], ["--derivation", 3], ["--RoundPadding", "false", "--padding", 2.3],
        ["--FPType", 1], ["--alpha1", 1e-4], ["--WallConductivity", 1.4e6], ["-I", 1e-3, 0, 2e-3],
        # a dilute phase space (peak density a hundred times below the usual one): what is stored must not depend on the magnitude of the values either
        ["--InitialDistZoom", 3, "--PhaseSpaceSize", 24],
        # a step count per period that is not a power of two (time stamps k/10 are not exact in binary)
        ["-N", 10, "-T", 1.5]]


def phys_key(c):
    return (c["renorm"], c["rf"], c.get("imp", "collimator"), c.get("n", 16), c.get("mod", 0), c.get("start", 0), c.get("x", 0))


def records(doc):
    """{dataset: {time: rowhash}} for the time-indexed datasets (+ phase space by its own axis)"""
    out = {}
    t = doc["datasets"]["/Info/AxisValues_t"]["data"]
    for name in TIME_DS:
        d = doc["datasets"].get(name)
        if d is None or not d["dims"] or d["dims"][0] != len(t):
            out[name] = None if d is None else "LEN%d" % (d["dims"][0] if d["dims"] else -1)
            continue
        out[name] = dict(zip(t, d["rowhash"]))
    tp = doc["datasets"]["/PhaseSpace/axis0"]["data"]
    out["/PhaseSpace/data"] = dict(zip(tp, doc["datasets"]["/PhaseSpace/data"]["rowhash"]))
    return out


def run(res, tier):
    res.assumptions += [
        "all runs of one check use the FFTW wisdom created by a warm-up run (the property says: same wisdom)",
        "deterministic RF (no noise; phase modulation in two physics keys); /Particles is compared only between runs with the same tracking file and model (deterministic models 0-2)",
        "base run: 10 steps (8 per synchrotron period), 16x16 (and 15x15) grid, zoomed start on a shifted grid, damping on; impedance in {collimator, none, shielded CSR}"]
    exe = pl.build.build_bin("plain")
    pl.warm(exe, [["-s", n] + BASE + IMP[i] + ["-n", 1] for i in IMP for n in (16, 15)], "c12warm")
    wd = pl.workdir("c12")
    for n in (16, 15):
        b0 = [x for i, x in enumerate(BASE) if not (x == "-T" or (i > 0 and BASE[i - 1] == "-T"))]
        r0 = pl.run(exe, ["-s", n] + b0 + IMP["collimator"] + ["-n", 5, "--SavePhaseSpace", 1, "-T", 0.625], wd, out="start%d.h5" % n)
        if r0["rc"] != 0 or not os.path.exists(r0["h5"]):
            res.violate("C12/start-file-run-failed", "start%d.h5" % n, r0["log"][-300:], replay=dict(cmd=r0["cmd"]))
        STARTFILE[n] = r0["h5"]
    # the same first leg with every phase space saved (six records), for starts from an explicitly chosen record
    rd = pl.run(exe, ["-s", 16] + b0 + IMP["collimator"] + ["-n", 1, "--SavePhaseSpace", 1, "-T", 0.625], wd, out="startdense16.h5")
    if rd["rc"] != 0 or not os.path.exists(rd["h5"]):
        res.violate("C12/start-file-run-failed", "startdense16.h5", rd["log"][-300:], replay=dict(cmd=rd["cmd"]))
    STARTDENSE = rd["h5"]
    trackfile = os.path.join(wd, "track.txt")
    with open(trackfile, "w") as f:
        f.write("0.5 0.3\n-1.2 0.8\n2.0 -1.5\n")
    outsteps = [0, 1, 2, 3, 5, 10, 11]
    saves = [0, 1, 2]
    tracks = [None, 0, 1, 2]
    if vlib.wide(tier):
        cfgs = [dict(outstep=o, save=s, track=t, verbose=v, name=nm, renorm=r, rf=rf, imp=imp, n=n, mod=mod, start=st)
                for o, s, t, v, nm, r, rf, imp, n, mod, st in itertools.product(outsteps, saves, tracks, [0, 1], ["a", "b_other_name"], [-1, 0, 3], ["linear", "sin"], ["collimator", "none", "csr"], [16, 15], [0, 1], [0, 1])
                if ((imp == "collimator" and n == 16 and mod == 0) or (t in (None, 1) and nm == "a" and (n == 16 or v == 0) and (mod == 0 or (v == 0 and imp != "csr"))))
                and (st == 0 or (n == 16 and mod == 0 and nm == "a" and t in (None, 1) and imp != "csr"))]
    else:
        cfgs = []
        for key in [(0, "linear", "collimator", 16, 0), (3, "linear", "collimator", 16, 0), (-1, "sin", "collimator", 16, 0), (3, "linear", "none", 16, 0), (2, "sin", "csr", 16, 0),
                                   (2, "linear", "csr", 15, 0), (0, "linear", "collimator", 16, 1), (-1, "sin", "none", 16, 1),
                                   (0, "linear", "collimator", 16, 0, 1), (3, "sin", "none", 16, 0, 1)]:
            r, rf, imp, n, mod = key[:5]
            st = key[5] if len(key) > 5 else 0
            for o, s in itertools.product(outsteps, saves):                       # full cadence product
                cfgs.append(dict(outstep=o, save=s, track=None, verbose=0, name="a", renorm=r, rf=rf, imp=imp, n=n, mod=mod, start=st))
            for t in [0, 1, 2]:                                                   # single deviations
                cfgs.append(dict(outstep=2, save=1, track=t, verbose=0, name="a", renorm=r, rf=rf, imp=imp, n=n, mod=mod, start=st))
            cfgs.append(dict(outstep=2, save=1, track=None, verbose=1, name="a", renorm=r, rf=rf, imp=imp, n=n, mod=mod, start=st))
            cfgs.append(dict(outstep=3, save=2, track=1, verbose=1, name="b_other_name", renorm=r, rf=rf, imp=imp, n=n, mod=mod, start=st))
    # a start from an explicitly chosen record of a file that holds one per step: full cadence product for two physics keys
    for r, rf, imp in ((0, "linear", "collimator"), (-1, "sin", "none")):
        for o, s_ in itertools.product(outsteps, saves):
            cfgs.append(dict(outstep=o, save=s_, track=None, verbose=0, name="a", renorm=r, rf=rf, imp=imp, n=16, mod=0, start=2, startpath=STARTDENSE))
    # what the output file is called: also the name of the file the run starts from
    for base_c in [c for c in list(cfgs) if c.get("start") and c["name"] == "a" and c["track"] is None and c["verbose"] == 0 and c["outstep"] in (0, 2, 5) and c["save"] in (0, 1)]:
        cfgs.append(dict(base_c, name="inplace"))
    for x in range(1, len(XTRA)):
        for imp, renorm in (("csr", 0), ("collimator", 3)):
            for o, s in itertools.product(outsteps, saves):
                cfgs.append(dict(outstep=o, save=s, track=None, verbose=(o + s) % 2, name="a", renorm=renorm, rf="linear", imp=imp, n=16, mod=0, start=0, x=x))
    if vlib.deep(tier):     # thorough: every PAIR of the rarely used options as a physics key of its own (a reduced cadence set)
        n1 = len(XTRA)
        for i in range(1, n1):
            for j in range(i + 1, n1):
                names = lambda v: set(x for x in v if isinstance(x, str) and x.startswith("-"))
                if names(XTRA[i]) & names(XTRA[j]):
                    continue
                XTRA.append(XTRA[i] + XTRA[j])
                for o, s_ in ((0, 0), (2, 1), (3, 2), (5, 0), (11, 1)):
                    cfgs.append(dict(outstep=o, save=s_, track=None, verbose=0, name="a", renorm=3, rf="linear", imp="csr", n=16, mod=0, start=0, x=len(XTRA) - 1))
    # the reference of every physics key: every step written, every phase space saved
    refs = {}
    for k in sorted(set(phys_key(c) for c in cfgs)):
        refs[k] = dict(outstep=1, save=1, track=None, verbose=0, name="ref", renorm=k[0], rf=k[1], imp=k[2], n=k[3], mod=k[4], start=k[5], x=k[6])
        if k[5] == 2:
            refs[k]["startpath"] = STARTDENSE

    def do(ic):
        i, c, rep = ic
        out = "%s_%d_r%d.h5" % (c["name"], i, rep)
        if c["name"] == "inplace":      # the run is continued in place: the output file IS the file it starts from (a copy of the start file under the output's name)
            import shutil
            shutil.copy(c.get("startpath") or STARTFILE[c.get("n", 16)], os.path.join(wd, out))
            c = dict(c, startpath=os.path.join(wd, out))
        r = pl.run(exe, args_of(c, trackfile), wd, out=out)
        doc = pl.h5(r["h5"], maxv=4000) if r["rc"] == 0 else None
        try:
            os.remove(r["h5"])
            os.remove(r["h5"] + ".cfg")
            os.remove(r["h5"] + ".log")
        except OSError:
            pass
        return i, c, rep, r, doc

    jobs = [(i, c, rep) for i, c in enumerate(cfgs) for rep in (0, 1)] + [(10000 + j, refs[k], 0) for j, k in enumerate(sorted(refs))]
    results = pl.pmap(do, jobs)
    refdocs = {}
    for i, c, rep, r, doc in results:
        if i >= 10000:
            if doc is None or "error" in doc:
                res.violate("C12/reference-run-failed", str(c), r["log"][-300:], replay=dict(cmd=r["cmd"]))
            else:
                refdocs[phys_key(c)] = (records(doc), doc)
    first = {}
    finals = {}
    for i, c, rep, r, doc in results:
        if i >= 10000:
            continue
        case = " ".join("%s=%s" % kv for kv in sorted(c.items())) + " rep=%d" % rep
        if doc is None or "error" in doc:
            res.violate("C12/run-failed", case, "rc=%s %s" % (r["rc"], r["log"][-200:]), replay=dict(cmd=r["cmd"]))
            continue
        rec = records(doc)
        res.eval(case, pl.chash(case, sorted(rec["/PhaseSpace/data"].items())), trivial=False)
        k = phys_key(c)
        if k not in refdocs:
            continue
        ref, refdoc = refdocs[k]
        # (1) every record present in both runs is bitwise identical, dataset by dataset
        for name, m in rec.items():
            if not isinstance(m, dict):
                if name == "/WakePotential/data" and (m is None or c.get("imp") == "none"):
                    continue
                res.violate("C12/dataset-length%s" % name, case, "dataset %s has %s records but the time axis differs" % (name, m), replay=dict(cmd=r["cmd"]))
                continue
            if not isinstance(ref.get(name), dict):
                continue
            for t, h in m.items():
                if t not in ref[name]:
                    # the reference writes every step: a record stamped with a time the reference does not have carries a stamp that depends on what was written
                    res.violate("C12/time-stamp-depends-on-observation/%s" % ("phase-space-axis" if name == "/PhaseSpace/data" else "time-axis"), case,
                                "%s holds a record stamped t=%r; the run that writes every step has no record with that stamp (nearest %r)" % (name, t, min(ref[name], key=lambda x: abs(x - t)) if ref[name] else None),
                                replay=dict(cmd=r["cmd"], reference=" ".join(map(str, args_of(refs[k], trackfile)))))
                    break
                if t in ref[name] and ref[name][t] != h:
                    what = "final-phase-space" if (name == "/PhaseSpace/data" and t == max(m)) else "common-record"
                    if name == "/PhaseSpace/data" and t == 0 and c["save"] == 0 and c["renorm"] > 0 and len(m) > 1:
                        # the extra initial record written when SavePhaseSpace=0 is taken before the loop head renormalises at step 0
                        res.violate("C12/initial-phase-space-record/SavePhaseSpace=0/RenormalizeCharge>0", case,
                                    "the initial record (t=0) written because SavePhaseSpace=0 differs bitwise from the t=0 record of a run with SavePhaseSpace=1",
                                    replay=dict(cmd=r["cmd"], reference=" ".join(map(str, args_of(refs[k], trackfile)))))
                        continue
                    res.violate("C12/%s-differs/%s/%s" % (what, name.strip("/").replace("/", "."), "outstep=%s" % ("0" if c["outstep"] == 0 else ">0") if what != "common-record" else "cadence"),
                                case, "record at t=%s of %s differs bitwise from the run that writes every step" % (t, name),
                                replay=dict(cmd=r["cmd"], reference=" ".join(map(str, args_of(refs[k], trackfile)))))
                    break
        # final phase space must exist at the final time in both
        tf = max(rec["/PhaseSpace/data"]) if rec["/PhaseSpace/data"] else None
        # ... and "after N steps" is the same N whatever the cadence: the run ends at the same time as the run that writes every step
        tref = max(ref["/PhaseSpace/data"]) if isinstance(ref.get("/PhaseSpace/data"), dict) and ref["/PhaseSpace/data"] else None
        if tf != tref:
            res.violate("C12/final-time-depends-on-observation/outstep=%s" % ("0" if c["outstep"] == 0 else ">0"), case, "the run ends at t=%s, the run that writes every step at t=%s" % (tf, tref),
                        replay=dict(cmd=r["cmd"], reference=" ".join(map(str, args_of(refs[k], trackfile)))))
        finals.setdefault(k, set()).add(rec["/PhaseSpace/data"].get(tf))
        # (2) the repetition is bitwise identical in every physics dataset (incl. particles)
        if rep == 0:
            first[i] = (rec, doc)
        else:
            rec0, doc0 = first.get(i, (None, None))
            if rec0 is not None:
                if rec0 != rec:
                    bad = [n for n in rec if rec[n] != rec0[n]]
                    res.violate("C12/repetition-differs", case, "datasets differ between two identical invocations: %s" % bad[:3], replay=dict(cmd=r["cmd"]))
                p0, p1 = doc0["datasets"].get("/Particles/data"), doc["datasets"].get("/Particles/data")
                if p0 and p1 and p0.get("rowhash") != p1.get("rowhash"):
                    res.violate("C12/repetition-differs/particles", case, "tracked particles differ between two identical invocations", replay=dict(cmd=r["cmd"]))
    res.coverage["distinct_final_phase_spaces_per_physics_key"] = {str(k): len(v) for k, v in finals.items()}
    res.rule = ("one evaluation = one run of the real binary (each configuration twice); cases = cadence x save cadence x tracking x verbosity x name x renormalisation x RF model; "
                "distinct = hash of configuration + phase-space record hashes; every record is compared bitwise (FNV of the raw bytes) with the run that writes every step")
    res.bounds_done.append("%d configurations x 2 repetitions (%s)" % (len(cfgs), "full product" if vlib.wide(tier) else "full cadence product for 3 physics keys + single deviations"))
    return None


def replay(doc):
    print("re-run:", doc.get("replay"))
    return 1
