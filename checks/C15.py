"""C15 - tracked particles follow the flow and stay on the grid"""
from checks import _api
LEVEL = "exploration"


def run(res, tier):
    res.assumptions += [
        "centroid comparison only where blob and image keep |offset|+3 cells clear of the border; 'inside the grid' is demanded everywhere",
        "the two deterministic Fokker-Planck tracking approximations are documented as approximations: only 'finite and inside the grid' is demanded of them",
        "stochastic model: private PRNG re-seeded with enumerated seeds; ensemble of 4096 particles, 5 sigma/sqrt(N) on the mean, 6 % on the width"]
    return _api.run(res, tier, ["C15_tracking"])


replay = _api.replay
