"""C15 - tracked particles follow the flow and stay on the grid (API level; process level: a particle on a blob's centre follows the centroid)"""
import math
import os
import sys

import vlib
from checks import _api
sys.path.insert(0, os.path.join(vlib.VERIF, "proc"))
import pl  # noqa: E402
LEVEL = "exploration"


def blob(n, sx, sy, q0, p0, w):
    d = 12.0 / (n - 1)
    v = []
    for x in range(n):
        for y in range(n):
            q, p = -sx * d - 6 + x * d, -sy * d - 6 + y * d
            v.append(math.exp(-0.5 * ((q - q0) ** 2 + (p - p0) ** 2) / (w * w)))
    s = sum(v) * d * d
    return [x / s for x in v]


def process_level(res, tier):
    """the real binary with a tracking file: rotation only (linear maps), so the particle placed on the blob's centre must follow the
    recorded centroid; every recorded coordinate must lie on the grid.  Exercises main()'s wiring (each map applied once to the
    particles, in order) and the conversion of the tracking file's physical coordinates on shifted grids."""
    exe = pl.build.build_bin("plain")
    wd = pl.workdir("c15")
    cases = []
    for n in ([32, 48] if vlib.wide(tier) else [32]):
        for sx, sy in ([(0, 0), (2, -1), (-3, 2)] if vlib.wide(tier) else [(0, 0), (2, -1)]):
            for si, (q0, p0) in enumerate([(1.0, 0.0), (-0.6, 0.9)]):
                for it in ((2, 3, 4) if vlib.wide(tier) else (4,)):
                    cases.append((n, sx, sy, si, q0, p0, it, 0, 0))
            cases.append((n, sx, sy, 0, 0.8, -0.5, 4, 3, 0))
            cases.append((n, sx, sy, 1, -0.6, 0.9, 4, 0, 1))    # time-dependent RF kick (phase modulation): particle and charge must get the same step's kick    # with damping/diffusion and the stochastic tracking model: coordinates on the grid

    def do(c):
        n, sx, sy, si, q0, p0, it, fptrack, mod = c
        tag = "%d_%g_%g_%d_%d_%d_%d" % (n, sx, sy, si, it, fptrack, mod)
        start = os.path.join(wd, "s_%s.h5" % tag)
        pl.write_start_h5(start, n, blob(n, sx, sy, q0, p0, 0.6))
        tf = os.path.join(wd, "t_%s.txt" % tag)
        with open(tf, "w") as f:
            f.write("%g %g\n-5.99 5.99\n5.99 -5.99\n" % (q0, p0))
            # ... a particle exactly on a mesh point, one on the very last mesh point of the position axis, one beyond the grid (it is brought onto it)
            d_ = 12.0 / (n - 1)
            f.write("%.9g %.9g\n" % (-sx * d_ - 6 + (n // 2 + 3) * d_, -sy * d_ - 6 + (n // 2 - 2) * d_))
            f.write("%.9g %.9g\n" % (-sx * d_ - 6 + (n - 1) * d_, -sy * d_ - 6 + 5 * d_))
            f.write("%.9g %.9g\n" % (-sx * d_ + 7.5, -sy * d_ - 6 + 9 * d_))
        a = ["-s", n, "-N", 32, "-T", 1, "-n", 1, "-G", 0, "-f", 45000, "--RenormalizeCharge", -1, "-i", start, "--padding", 2,
             "--PhaseSpaceShiftX", sx, "--PhaseSpaceShiftY", sy, "--InterpolationPoints", it, "--tracking", tf, "--FPTrack", fptrack]
        a += ["-d", 0, "--FPType", 0] if fptrack == 0 else ["-d", 2e-4]
        if mod:
            a += ["--RFPhaseModAmplitude", 0.012, "--RFPhaseModFrequency", 4 * 45000]
        r = pl.run(exe, a, wd, out="o_%s.h5" % tag)
        doc = pl.h5(r["h5"], maxv=20000) if r["rc"] == 0 else None
        for f in (start, tf, r["h5"], r["h5"] + ".cfg", r["h5"] + ".log"):
            try:
                os.remove(f)
            except OSError:
                pass
        return c, r, doc
    for c, r, doc in pl.pmap(do, cases):
        n, sx, sy, si, q0, p0, it, fptrack, mod = c
        case = "process n=%d shift=%g,%g start=%d it=%d FPTrack=%d rfmod=%d" % (n, sx, sy, si, it, fptrack, mod)
        rp = dict(cmd=r["cmd"], note="start file: Gaussian blob at (%g,%g) width 0.6; tracking file: that point and two corner points" % (q0, p0))
        if doc is None or "error" in doc:
            res.violate("C15/process/run-failed", case, "rc=%s %s" % (r["rc"], r["log"][-200:]), replay=rp)
            continue
        pt = pl.rows(doc, "/Particles/data")
        q = doc["datasets"]["/BunchPosition/data"]["data"]
        p = doc["datasets"]["/EnergyAverage/data"]["data"]
        z, e = doc["datasets"]["/Info/AxisValues_z"]["data"], doc["datasets"]["/Info/AxisValues_E"]["data"]
        res.eval(case, pl.chash(case, pt[-1] if pt else 0), trivial=False)
        key = "C15/process/%s" % (("rotation" if not mod else "modulated-rf") if fptrack == 0 else "stochastic")
        d = 12.0 / (n - 1)
        bad = False
        # the first record holds the start positions (brought onto the grid where they lie outside), to within the one cell of the stored truncation
        given = [(q0, p0), (-5.99, 5.99), (5.99, -5.99), (-sx * d - 6 + (n // 2 + 3) * d, -sy * d - 6 + (n // 2 - 2) * d), (-sx * d - 6 + (n - 1) * d, -sy * d - 6 + 5 * d), (-sx * d + 7.5, -sy * d - 6 + 9 * d)]
        if pt and len(pt[0]) == 2 * len(given):
            for j, (gq, gp) in enumerate(given):
                wq, wp = min(max(gq, z[0]), z[-1]), min(max(gp, e[0]), e[-1])
                if abs(pt[0][2 * j] - wq) > 1.05 * d + 1e-4 or abs(pt[0][2 * j + 1] - wp) > 1.05 * d + 1e-4:
                    res.violate(key + "/first-record-is-not-the-start-position/%s" % ("on-a-mesh-point" if j in (3, 4) else "outside-the-grid" if j == 5 else "generic"), case,
                                "particle %d given at (%g, %g): the first record says (%g, %g)" % (j, gq, gp, pt[0][2 * j], pt[0][2 * j + 1]), replay=rp)
                    bad = True
                    break
        elif pt:
            res.violate(key + "/particle-count", case, "%d coordinates per record for %d particles" % (len(pt[0]), len(given)), replay=rp)
            bad = True
        for k, row in enumerate(pt):
            if bad:
                break
            for j in range(0, len(row), 2):
                if not (z[0] - 1e-4 <= row[j] <= z[-1] + 1e-4 and e[0] - 1e-4 <= row[j + 1] <= e[-1] + 1e-4) or row[j] != row[j] or row[j + 1] != row[j + 1]:
                    res.violate(key + "/leaves-grid", case, "record %d particle %d at (%g, %g), grid [%g,%g]x[%g,%g]" % (k, j // 2, row[j], row[j + 1], z[0], z[-1], e[0], e[-1]), replay=rp)
                    bad = True
                    break
            if bad:
                break
            if fptrack == 0:
                err = math.hypot(row[0] - q[k], row[1] - p[k])
                res.coverage["worst_process_particle_vs_centroid_cells"] = max(res.coverage.get("worst_process_particle_vs_centroid_cells", 0), err / d)
                # the stored particle coordinate is truncated to a grid point (q(index)): at most one cell below the true position in each direction
                if err > 1.5 * d + 0.02:
                    res.violate(key + "/particle-does-not-follow-centroid/%s" % ("shifted" if (sx or sy) else "centred"), case,
                                "record %d: particle at (%.4f, %.4f), recorded centroid (%.4f, %.4f): %.2f cells apart" % (k, row[0], row[1], q[k], p[k], err / d), replay=rp)
                    break
    res.bounds_done.append("process level: %d runs with a tracking file (particle on a blob's centre + two corner particles)" % len(cases))


def run(res, tier):
    res.assumptions += [
        "centroid comparison only where blob and image keep |offset|+3 cells clear of the border; 'inside the grid' is demanded everywhere",
        "the two deterministic Fokker-Planck tracking approximations are documented as approximations: over many steps only 'finite and inside the grid' is demanded of them; over one step a particle on a blob's centre has to move as the blob's centroid does to within a quarter of the shift plus a hundredth of a cell (part fpflow)",
        "stochastic model: private PRNG re-seeded with enumerated seeds; ensemble of 4096 particles, 5 sigma/sqrt(N) on the mean, 6 % on the width",
        "process level: /Particles stores q(index) of the truncated grid coordinate, so a particle may appear up to one cell below its position in each direction (tolerance 1.5 cells)"]
    c = _api.run(res, tier, ["C15_tracking"])
    process_level(res, tier)
    return c


replay = _api.replay
