// inov.hpp - helpers to drive the real Inovesa objects from the harnesses.
// Harness TUs are compiled with -fno-access-control -DINOVESA_ALLOW_PS_RESET=1.
#pragma once
#include <memory>
#include <vector>
#include <cmath>
#include <limits>

#include "defines.hpp"
#include "IO/Display.hpp"
#include "PS/PhaseSpace.hpp"
#include "PS/ElectricField.hpp"
#include "SM/SourceMap.hpp"
#include "SM/KickMap.hpp"
#include "SM/RFKickMap.hpp"
#include "SM/DriftMap.hpp"
#include "SM/DynamicRFKickMap.hpp"
#include "SM/FokkerPlanckMap.hpp"
#include "SM/Identity.hpp"
#include "SM/WakePotentialMap.hpp"
#include "SM/RotationMap.hpp"
#include "Z/Impedance.hpp"
#include "Z/ConstImpedance.hpp"
#include "Z/CollimatorImpedance.hpp"
#include "Z/FreeSpaceCSR.hpp"
#include "Z/ParallelPlatesCSR.hpp"
#include "Z/ResistiveWall.hpp"
#include "Z/ImpedanceFactory.hpp"

#include "mcx.hpp"

namespace inov {
using namespace vfps;
typedef std::shared_ptr<PhaseSpace> psptr;
constexpr float EPS = std::numeric_limits<float>::epsilon();

inline void quiet() { Display::silent_mode = true; }

inline std::vector<float> even_filling(unsigned nb) { return std::vector<float>(nb, 1.0f / nb); }

// set the static grid size (as the repository's own unit tests do) - all live PhaseSpaces must be gone
inline void set_size(unsigned n, unsigned nb) { PhaseSpace::resetSize(n, nb); }

// Arguments an object takes by const reference belong to the caller, who may change or free them afterwards: every harness hands such arguments over
// in a scratch vector that is overwritten and destroyed right after the constructor returns (an object that kept a reference instead of a copy shows up
// as a wrong result, or as a use-after-free under the sanitizer build).
template <class T, class F> auto with_scratch(const std::vector<T>& v, F make) -> decltype(make(v)) {
    auto* s = new std::vector<T>(v);
    auto r = make(*s);
    for (auto& x : *s) x = T(77);
    s->clear(); s->shrink_to_fit(); delete s;
    return r;
}

// grid with explicit extents; data may be nullptr (-> default Gaussian)
inline psptr mkps(float qmin, float qmax, float pmin, float pmax, const std::vector<float>& filling,
                  const float* data = nullptr, double zoom = 1, double qscale = 1e-3, double pscale = 6.1e5,
                  double charge = 1e-9, double current = 1e-3) {
    return with_scratch(filling, [&](const std::vector<float>& f) { return std::make_shared<PhaseSpace>(qmin, qmax, qscale, pmin, pmax, pscale, nullptr, charge, current, f, zoom, data); });
}
// symmetric [-h,h]^2 grid shifted by (sx,sy) cells, like main() does
inline psptr mkps_shift(unsigned n, float pqsize, float sx, float sy, const std::vector<float>& filling,
                        const float* data = nullptr, double zoom = 1) {
    const float qc = -sx * pqsize / (n - 1), pc = -sy * pqsize / (n - 1), h = pqsize / 2;
    return mkps(qc - h, qc + h, pc - h, pc + h, filling, data, zoom);
}

// grid coordinate i of axis ax, computed here from the axis' end points (not through PhaseSpace::q()/p() or Ruler::at(), which are code under test)
inline double coord(const PhaseSpace& ps, int ax, unsigned i) {
    const double lo = ps.getAxis(ax)->min(), hi = ps.getAxis(ax)->max(); const unsigned n = ax ? PhaseSpace::ny : PhaseSpace::nx;
    return lo + (hi - lo) * (double)i / (double)(n - 1);
}

inline double sum(const float* d, size_t n) { double s = 0; for (size_t i = 0; i < n; i++) s += d[i]; return s; }
inline bool all_finite(const float* d, size_t n) { for (size_t i = 0; i < n; i++) if (!std::isfinite(d[i])) return false; return true; }

// the displacement alphabet shared by C01/C02/C08/C15: whole, fractional, both signs, tiny fractions,
// near-whole values, displacements of half the grid and more, and kicks beyond the grid
inline std::vector<float> alphabet(unsigned n) {
    const float m = float(n / 2) - 2;
    std::vector<float> a = {0.f, 1.f, -1.f, 2.f, -2.f, m, -m, 0.25f, -0.25f, 0.5f, -0.5f, 0.75f, -0.75f, 1.5f, -1.5f,
                            1.f + 1.1920929e-7f, 1.f - 5.9604645e-8f, -1.f + 5.9604645e-8f, 1e-6f, -1e-6f,
                            5.9604645e-8f, -5.9604645e-8f, 0.99999994f, -0.99999994f, m - 0.5f, -(m - 0.5f), 2.3125f, -1.6875f,
                            0.333333343f, -0.666666687f, 5e-4f, 1.0005f, -1.9997f, 0.9995f, -0.0005f,
                            // up to the ends of the range the offset table can encode, [-n/2, n/2)
                            m + 1.f, -(m + 1.f), m + 1.5f, -(m + 1.5f), m + 1.99f, -(m + 2.f), m + 0.75f, -(m + 1.25f),
                            // half the grid and more (a blob near one border is moved towards the other; zeros flow in behind it), just beyond -n/2, and beyond the grid
                            m + 2.f, m + 2.3f, -(m + 2.3f), -(m + 2.7f), -(m + 3.f), m + 3.5f, float(n) - 3.f, -(float(n) - 3.f), float(n) - 2.25f, -(float(n) - 1.5f),
                            float(n) + 2.f, -(float(n) + 0.5f), 2.5f * n};
    return a;
}

}  // namespace inov
