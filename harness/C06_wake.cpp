// C06: wake potential = discrete convolution of the padded bunch train with the impedance.
// The wake is bilinear in (impedance, profiles): it is decided for ALL complex impedances and ALL profiles of a given
// configuration by its values on the basis  {e_k, i*e_k : k < N} x {unit impulse in cell x of bunch b}.
// Reference: closed form of the double-precision direct DFT for that basis; dense cross-checks against the O(N^2) DFT.
#include "efield.hpp"
using namespace ef;
static mcx::Report R;

static std::vector<Cfg> configs(bool T) {
    std::vector<Cfg> v;
    std::vector<unsigned> ns = T ? std::vector<unsigned>{4, 5, 6, 8, 12, 16} : std::vector<unsigned>{4, 5};
    std::vector<unsigned> Ns = T ? std::vector<unsigned>{16, 24, 30, 32, 33, 37, 48, 64, 74, 96, 127, 128, 255, 256} : std::vector<unsigned>{16, 24, 33};
    std::vector<std::vector<uint32_t>> bsets = {{0}, {1}, {1, 0}, {0, 1}, {2, 0}};
    if (T) { bsets.push_back({2, 1, 0}); bsets.push_back({3, 0, 1}); bsets.push_back({2}); bsets.push_back({3, 2, 1, 0}); bsets.push_back({4, 0}); bsets.push_back({0, 2, 5}); }
    for (unsigned n : ns) for (unsigned N : Ns) for (auto& bs : bsets) for (int sp = 0; sp < 5; sp++) {
        unsigned spacing = sp == 0 ? n : sp == 1 ? n + 3 : sp == 4 ? n - 2 : 2 * n;
        unsigned mx = 0; for (auto b : bs) mx = std::max(mx, b);
        if (mx == 0 && sp > 0) continue;                 // spacing irrelevant for bucket 0 only
        if (sp == 4) {                                   // buckets shorter than the grid: only trains whose filled buckets are two or more apart (the profiles' windows must not overlap)
            bool apart = true; for (size_t i = 0; i < bs.size(); i++) for (size_t j = i + 1; j < bs.size(); j++) apart = apart && (bs[i] > bs[j] ? bs[i] - bs[j] : bs[j] - bs[i]) * spacing >= n;
            if (!apart || n < 4) continue;
        }
        if (sp == 3) {                                   // exact fit: the last bucket ends at the very end of the padded buffer
            if ((N - n) % mx != 0 || (N - n) / mx < n) continue;
            spacing = (N - n) / mx;
        }
        if (mx * spacing + n > N) continue;              // train must fit the padded length
        v.push_back(Cfg{n, (unsigned)bs.size(), N, spacing, bs});
        // the wake's strength is stated in cells of the ENERGY axis; the two axes need not have equal cells (main() builds equal extents, the API allows any)
        v.back().pext = (v.size() % 3 == 0) ? 6.f : (v.size() % 3 == 1) ? 4.f : 9.f;
    }
    return v;
}

int main(int argc, char** argv) {
    R.init(argc, argv, "C06", "C06_wake"); quiet();
    R.rule = "one evaluation = one real wakePotential() call for (configuration, impedance basis vector, profile basis vector) or a dense cross-check; "
             "distinct = FNV of case + returned wake; trivial = impedance bin above N/2 (must give exactly zero)";
    R.sample_every = 4000;
    auto cfgs = configs(true);
    if (R.thorough()) {      // thorough: longer transforms (power of two, composite, prime), larger grids, four and five buckets
        for (unsigned n : {16u, 24u, 32u}) for (unsigned N : {257u, 384u, 512u}) for (auto bs : std::vector<std::vector<uint32_t>>{{0}, {3, 1, 0}, {4, 3, 1, 0}, {0, 1, 2, 3, 5}}) {
            unsigned mx = 0; for (auto b : bs) mx = std::max(mx, b);
            const unsigned spacing = n + 5; if (mx * spacing + n > N) continue;
            cfgs.push_back(Cfg{n, (unsigned)bs.size(), N, mx ? spacing : n, bs});
        }
    }
    if (R.warm) { std::set<unsigned> seen; for (auto& c : cfgs) if (seen.insert(c.N).second) { Rig r(c); r.f->wakePotential(); } return 0; }
    double worst = 0;
    for (auto& c : cfgs) {
        std::string kase = mcx::Desc()("n", c.n)("N", c.N)("buckets", bstr(c.buckets))("spacing", c.spacing).f("pext", c.pext).str();
        if (!R.mine(kase)) continue;
        if (R.out_of_time()) { R.not_completed = kase; break; }
        Rig rig(c);
        const double sN = rig.expected_scaling_times_N(), s = rig.f->getWakeScaling();
        std::string keyb = std::string("C06/") + (c.nb > 1 ? "nb>1" : (c.buckets[0] ? "bucket>0" : "bucket0")) + (c.N & (c.N - 1) ? (c.N % 2 ? "/N-odd" : "/N-composite") : "/N-pow2");
        if (!(std::fabs(s * c.N / sN - 1) < 1e-5)) { R.violate("C06/scaling", kase, "getWakeScaling()*N=" + mcx::fstr(s * c.N) + " expected " + mcx::fstr(sN)); }
        const unsigned half = c.N / 2;   // bins used: k < N/2; the single top bin may be used or not (the statement leaves it open)
        std::vector<impedance_t> Z(c.N, impedance_t(0, 0));
        std::vector<float> zero(c.n, 0.f);
        for (unsigned k0 = 0; k0 < c.N; k0++) for (int im = 0; im < 2; im++) {
            Z.assign(c.N, impedance_t(0, 0)); Z[k0] = im ? impedance_t(0, 1) : impedance_t(1, 0); rig.set_z(Z);
            for (unsigned b0 = 0; b0 < c.nb; b0++) for (unsigned x0 = 0; x0 < c.n; x0++) {
                for (unsigned b = 0; b < c.nb; b++) rig.set_profile(b, zero);
                std::vector<float> p(c.n, 0.f); p[x0] = 1.f; rig.set_profile(b0, p);
                rig.f->wakePotential();
                const auto& W = rig.f->getWakePotentials();
                const unsigned j0 = c.buckets[b0] * c.spacing + x0;
                uint64_t h = mcx::fnvs(kase); h = mcx::fnv(&k0, 4, h); h = mcx::fnv(&im, 4, h); h = mcx::fnv(&j0, 4, h);
                for (unsigned b = 0; b < c.nb; b++) h = mcx::fnv(&W[b][0], 4 * c.n, h);
                R.eval(kase + " Z=" + (im ? "i*e" : "e") + std::to_string(k0) + " impulse=" + std::to_string(b0) + ":" + std::to_string(x0), h, k0 > half);
                // placement of the train
                const float* pad = rig.f->getPaddedBunchProfiles();
                if (pad[j0] != 1.f) { R.violate(keyb + "/placement", kase, "impulse of bunch " + std::to_string(b0) + " cell " + std::to_string(x0) + " not at padded index " + std::to_string(j0)); }
                for (unsigned b = 0; b < c.nb; b++) for (unsigned x = 0; x < c.n; x++) {
                    const unsigned j = c.buckets[b] * c.spacing + x;
                    const double ph = 2 * M_PI * (double)(((uint64_t)k0 * ((j + c.N - j0) % c.N)) % c.N) / c.N;
                    double want = (k0 == 0) ? (im ? 0.0 : 1.0) : (im ? -2 * std::sin(ph) : 2 * std::cos(ph));
                    double alt = want;                       // admissible alternative
                    if (k0 >= half) { want = 0; alt = 0; }
                    if (k0 == half && c.N % 2 == 0) alt = im ? 0.0 : std::cos(ph);     // Nyquist bin of an even length, if used
                    if (k0 == half && c.N % 2 == 1) alt = im ? -2 * std::sin(ph) : 2 * std::cos(ph);   // top bin of an odd length, if used
                    const double got = W[b][x] / s;
                    const double err = std::min(std::fabs(got - want), std::fabs(got - alt));
                    worst = std::max(worst, err);
                    const double tol = (k0 > half) ? 0.0 : 2e-5;
                    if (!(err <= tol)) {
                        char d[240]; snprintf(d, 240, "Z=%s%u impulse bunch %u cell %u -> bunch %u cell %u: wake/s = %.9g, reference %.9g", im ? "i*e_" : "e_", k0, b0, x0, b, x, got, want);
                        R.violate(keyb + (k0 > half ? "/negative-frequency-half-used" : "/basis"), kase, d); b = c.nb; break;
                    }
                }
            }
        }
        // dense cross-check of bilinearity: fixed pseudo-random complex Z and dense profiles vs the O(N^2) double DFT
        for (int v = 0; v < 3; v++) {
            std::vector<cd> Zd(c.N); std::vector<double> train(c.N, 0.0);
            for (unsigned k = 0; k < c.N; k++) { Zd[k] = cd(std::fabs(std::sin(1.3 * k + v)) + 0.1, std::cos(0.7 * k * (v + 1))); Z[k] = impedance_t((float)Zd[k].real(), (float)Zd[k].imag()); Zd[k] = cd(Z[k].real(), Z[k].imag()); }
            rig.set_z(Z);
            for (unsigned b = 0; b < c.nb; b++) { std::vector<float> p(c.n); for (unsigned x = 0; x < c.n; x++) { p[x] = 0.2f + std::fabs(std::sin(0.9f * x * (b + 1) + v)); train[c.buckets[b] * c.spacing + x] = p[x]; } rig.set_profile(b, p); }
            // the same object may have served other requests before (the spectrum for another set of profiles, with or without cut-off): the wake
            // of the profiles set NOW is what the statement defines
            if (v >= 1) rig.f->updateCSR(v == 1 ? 0.f : 3e11f);
            rig.f->wakePotential();
            auto ref = ref_wake(train, Zd, c.N, half);
            const auto& W = rig.f->getWakePotentials(); double mag = 0; for (double r : ref) mag = std::max(mag, std::fabs(r));
            uint64_t h = mcx::fnvs(kase) + v; for (unsigned b = 0; b < c.nb; b++) h = mcx::fnv(&W[b][0], 4 * c.n, h);
            R.eval(kase + " dense=" + std::to_string(v), h, false);
            // with the top bin admitted as an alternative
            std::vector<double> ref2 = ref;
            if (half < c.N) { auto r2 = ref_wake(train, Zd, c.N, half + 1); if (c.N % 2 == 0) for (unsigned j = 0; j < c.N; j++) r2[j] = ref[j] + (r2[j] - ref[j]) / 2; ref2 = r2; }
            for (unsigned b = 0; b < c.nb; b++) for (unsigned x = 0; x < c.n; x++) {
                const unsigned j = c.buckets[b] * c.spacing + x; const double got = W[b][x] / s;
                const double err = std::min(std::fabs(got - ref[j]), std::fabs(got - ref2[j]));
                if (!(err <= 2e-5 * (mag + 1))) { char d[200]; snprintf(d, 200, "dense %d bunch %u cell %u: wake/s = %.9g, reference %.9g", v, b, x, got, ref[j]); R.violate(keyb + "/dense", kase, d); b = c.nb; break; }
            }
        }
    }
    R.numbers["worst_basis_error"] = worst;
    R.bound_done(std::string("configurations (n, N incl. powers of two / composite / odd / prime, bucket sets with empty buckets, spacings) x {e_k, i e_k : all k < N} x every impulse of every bunch; ") + std::to_string(cfgs.size()) + " configurations");
    return R.finish();
}
