// C15: tracked particles follow the flow of the distribution and never leave the grid.
//  part=kick : KickMap both axes, orders 2..4, particle on every point of the half-cell lattice (edges and corners included), the two
//              rows bracketing it displaced by every pair of alphabet values.  Interior: centroid of a two-row blob (weights 1-f, f)
//              after apply() == particle after applyTo() (exact: the interpolation transports first moments).  Everywhere: inside grid.
//  part=fp   : the four Fokker-Planck tracking models x stencils x decrements x lattice positions x seeds, many steps: finite and inside
//              the grid after every step; stochastic model: ensemble drawn from the equilibrium keeps its mean (zero-energy row) and width
#include "inov.hpp"
#include <random>
using namespace inov;
static mcx::Report R;

static void part_kick(const std::vector<unsigned>& ns) {
    for (unsigned n : ns) for (unsigned it = 1; it <= 4; it++) for (int yaxis = 0; yaxis < 2; yaxis++) {
        auto A = alphabet(n);
        // keep the alphabet small enough for pairs: whole, fractional, both signs, the extremes
        std::vector<float> B = {0.f, 1.f, -1.f, 0.25f, -0.75f, 1.5f, -2.3125f, A[5], A[6], 0.99999994f, -5.9604645e-8f, 0.333333343f, -0.707106769f};
        for (size_t a0 = 0; a0 < B.size(); a0++) for (size_t a1 = 0; a1 < B.size(); a1++) {
            // one-point "interpolation" moves the charge by whole cells only: it follows the particle for whole-cell displacements
            if (it == 1 && (std::fabs(B[a0] - std::round(B[a0])) > 1e-6f || std::fabs(B[a1] - std::round(B[a1])) > 1e-6f)) continue;
            std::string kase = mcx::Desc()("part", "kick")("n", n)("it", it)("axis", yaxis ? "y" : "x")("a0", a0)("a1", a1).str();
            if (!R.mine(kase)) continue;
            if (R.out_of_time()) { R.not_completed = kase; return; }
            set_size(n, 1);
            auto in = mkps_shift(n, 12, 0, 0, {1.f}), out = mkps_shift(n, 12, 0, 0, {1.f});
            KickMap km(in, out, (SourceMap::InterpolationType)it, false, yaxis ? KickMap::Axis::y : KickMap::Axis::x, nullptr);
            const std::string key = std::string("C15/KickMap.") + (yaxis ? "y" : "x");
            double worst = 0;
            // lattice coordinate along the kick direction (pk) and across it (pr, selects the two rows)
            for (unsigned ir = 0; ir <= 2 * (n - 1); ir++) for (unsigned ik = 0; ik <= 2 * (n - 1); ik++) {
                const float pr = 0.5f * ir, pk = 0.5f * ik;
                const unsigned r0 = (unsigned)std::floor(pr); const float f = pr - r0;
                std::vector<float> off(n, 0.f);
                off[r0] = B[a0]; if (r0 + 1 < n) off[r0 + 1] = B[a1];
                km.swapOffset(off);
                PhaseSpace::Position pos = yaxis ? PhaseSpace::Position{pr, pk} : PhaseSpace::Position{pk, pr};
                // the main loop moves the particles through applyToAll(): it must do what applyTo() does to each of them
                std::vector<PhaseSpace::Position> all = {pos, pos};
                km.applyTo(pos);
                km.applyToAll(all);
                if (memcmp(&all[0], &pos, sizeof(pos)) != 0 || memcmp(&all[1], &pos, sizeof(pos)) != 0) {
                    char d[200]; snprintf(d, 200, "particle (%g along, %g across): applyTo -> (%g, %g), applyToAll -> (%g, %g)", pk, pr, pos.x, pos.y, all[0].x, all[0].y);
                    R.violate(key + "/applyToAll-differs-from-applyTo/it=" + std::to_string(it), kase, d);
                }
                const float got = yaxis ? pos.y : pos.x, across = yaxis ? pos.x : pos.y;
                R.eval(kase + " p=" + mcx::fstr(pr) + "," + mcx::fstr(pk), mcx::fnv(&got, 4, mcx::fnvs(kase) + ir * 1000 + ik), B[a0] == 0.f && B[a1] == 0.f);
                if (!std::isfinite(got) || got < 0.f || got > (float)(n - 1) || across != pr) {
                    char d[200]; snprintf(d, 200, "particle (%g along, %g across) offsets %g,%g -> %g (across %g): outside [0,%u] or moved across", pk, pr, B[a0], B[a1], got, across, n - 1);
                    R.violate(key + "/leaves-grid", kase, d); continue;
                }
                // interior comparison with the flow of the charge
                const float d0 = B[a0], d1 = (r0 + 1 < n) ? B[a1] : 0.f;
                const float margin = std::max(std::fabs(d0), std::fabs(d1)) + 3;
                if (!(pk - margin >= 0 && pk + margin <= n - 1)) continue;
                if (!(pr >= 1 && pr <= n - 2)) continue;   // outermost rows are border, not interior (the unit tests pin that a particle in the last row is not kicked)
                float* din = in->getData(); std::fill(din, din + (size_t)n * n, 0.f);
                auto put = [&](unsigned row, float w) {   // blob with centroid pk: one cell (whole pk) or two equal cells (half pk)
                    const unsigned c0 = (unsigned)std::floor(pk); const bool half = pk != c0;
                    for (int j = 0; j < (half ? 2 : 1); j++) { size_t idx = yaxis ? (size_t)row * n + c0 + j : (size_t)(c0 + j) * n + row; din[idx] = w * (half ? 0.5f : 1.f); }
                };
                put(r0, 1 - f); if (f != 0) put(r0 + 1, f);
                km.apply();
                const float* o = out->getData(); double q = 0, m = 0;
                for (unsigned row = r0; row <= std::min(r0 + 1, n - 1); row++) for (unsigned c = 0; c < n; c++) { double v = o[yaxis ? (size_t)row * n + c : (size_t)c * n + row]; q += v; m += v * c; }
                const double cen = m / q, err = std::fabs(cen - got);
                worst = std::max(worst, err);
                if (!(err <= 2e-4) || !(std::fabs(q - 1) < 1e-5)) {
                    char d[240]; snprintf(d, 240, "particle at %g (rows %u,%u weight %g) offsets %g,%g: applyTo -> %.7g, centroid of the charge -> %.7g (charge %.7g)", pk, r0, r0 + 1, f, d0, d1, got, cen, q);
                    R.violate(key + "/does-not-follow-flow/it=" + std::to_string(it), kase, d);
                }
            }
            R.maxnum("worst_particle_vs_centroid", worst);
        }
    }
    R.bound_done("kick: n x it{1 (whole-cell pairs), 2, 3, 4} x axis x 13x13 offset pairs of the two bracketing rows x every point of the half-cell lattice");
}

static void part_fp(const std::vector<unsigned>& ns, unsigned nseeds, unsigned steps) {
    for (unsigned n : ns) for (int track = 0; track < 4; track++) for (int dt = 3; dt <= 4; dt++) for (int ie = 0; ie < 3; ie++) for (int sy = -1; sy <= 1; sy++) for (unsigned seed = 0; seed < (track == 3 ? nseeds : 1); seed++) {
        std::string kase = mcx::Desc()("part", "fp")("n", n)("track", track)("stencil", dt)("e1idx", ie)("shifty", sy)("seed", seed).str();
        if (!R.mine(kase)) continue;
        if (R.out_of_time()) { R.not_completed = kase; return; }
        set_size(n, 1);
        auto in = mkps_shift(n, 12, 0, sy * 2, {1.f}), out = mkps_shift(n, 12, 0, sy * 2, {1.f});   // default Gaussian charge on the grid
        const double e1 = ie == 0 ? 1e-3 : ie == 1 ? 1e-2 : 0.04;
        FokkerPlanckMap m(in, out, n, n, FokkerPlanckMap::FPType::full, (FokkerPlanckMap::FPTracking)track, e1, (FokkerPlanckMap::DerivationType)dt, nullptr);
        m._prng.seed(seed); m._normdist.reset();
        const std::string key = "C15/FokkerPlanck/track=" + std::to_string(track);
        std::vector<PhaseSpace::Position> ps;
        for (unsigned ix = 0; ix <= 2 * (n - 1); ix += 3) for (unsigned iy = 0; iy <= 2 * (n - 1); iy++) ps.push_back({0.5f * ix, 0.5f * iy});
        bool bad = false;
        for (unsigned k = 0; k < steps && !bad; k++) {
            m.applyToAll(ps);
            for (auto& p : ps) if (!std::isfinite(p.y) || !std::isfinite(p.x) || p.y < 0 || p.y > (float)(n - 1) || p.x < 0 || p.x > (float)(n - 1)) {
                char d[200]; snprintf(d, 200, "step %u: particle at (%g, %g) is outside [0,%u] (e1 = %g)", k, p.x, p.y, n - 1, e1); R.violate(key + "/leaves-grid", kase, d); bad = true; break; }
        }
        uint64_t h = mcx::fnv(ps.data(), sizeof(PhaseSpace::Position) * ps.size(), mcx::fnvs(kase));
        R.eval(kase, h, track == 0);
        if (track == 3 && !bad && n >= 32) {
            // ensemble from the equilibrium: mean at the zero-energy row, width 1/delta cells; must stay so over 3 damping times
            const double zb = in->getAxis(1)->zerobin(), sig = 1.0 / in->getDelta(1); const unsigned NP = 4096;
            std::mt19937 g(12345 + seed); std::normal_distribution<float> nd(0.f, 1.f);
            std::vector<PhaseSpace::Position> en(NP); for (auto& p : en) p = {n / 2.f, (float)(zb + sig * nd(g))};
            const unsigned T = (unsigned)std::ceil(3.0 / e1);
            for (unsigned k = 0; k < T; k++) m.applyToAll(en);
            double mu = 0, var = 0; for (auto& p : en) mu += p.y; mu /= NP; for (auto& p : en) var += (p.y - mu) * (p.y - mu); var /= NP;
            const double sd = std::sqrt(var);
            R.maxnum("worst_ensemble_mean_offset_in_sigma_over_sqrtN", std::fabs(mu - zb) / (sig / std::sqrt((double)NP)));
            R.maxnum("worst_ensemble_width_deviation", std::fabs(sd / sig - 1));
            if (!(std::fabs(mu - zb) <= 5 * sig / std::sqrt((double)NP)) || !(std::fabs(sd / sig - 1) <= 0.06)) {
                char d[240]; snprintf(d, 240, "after %u steps (3 damping times) the ensemble mean is row %.4g (zero-energy row %.4g) and its width %.4g cells (equilibrium %.4g)", T, mu, zb, sd, sig);
                R.violate(key + "/ensemble-not-stationary", kase, d);
            }
        }
    }
    R.bound_done("fp: n x 4 tracking models x stencils x 3 decrements x 3 zero-bin shifts x seeds x lattice positions x " + std::to_string(steps) + " steps; stochastic ensemble of 4096 over 3 damping times (n >= 32)");
}


// part=fpflow : a particle on the centre of a blob and the blob itself, one Fokker-Planck step, for every Fokker-Planck type (none, damping only, diffusion only, full) and
//               both deterministic tracking approximations: the particle moves as the charge around it does (damping moves the centre by -e1 x its distance from the
//               zero-energy row, diffusion does not move it, "none" moves nothing)
static void part_fpflow(const std::vector<unsigned>& ns) {
    for (unsigned n : ns) for (int fpt = 0; fpt < 4; fpt++) for (int track = 1; track <= 2; track++) for (int dt = 3; dt <= 4; dt++) for (int ie = 0; ie < 3; ie++) for (int sy = 0; sy < 2; sy++) {
        std::string kase = mcx::Desc()("part", "fpflow")("n", n)("fptype", fpt)("track", track)("stencil", dt)("e1idx", ie)("shifty", sy).str();
        if (!R.mine(kase)) continue;
        if (R.out_of_time()) { R.not_completed = kase; return; }
        set_size(n, 1);
        auto in = mkps_shift(n, 12, 0, sy * 3, {1.f}), out = mkps_shift(n, 12, 0, sy * 3, {1.f});
        const double e1 = ie == 0 ? 2e-3 : ie == 1 ? 1e-2 : 0.03;
        FokkerPlanckMap m(in, out, n, n, (FokkerPlanckMap::FPType)fpt, (FokkerPlanckMap::FPTracking)track, e1, (FokkerPlanckMap::DerivationType)dt, nullptr);
        const double zb = in->getAxis(1)->zerobin(), sig = 2.5; const unsigned c0 = n / 2;
        const std::string key = "C15/FokkerPlanck/flow/fptype=" + std::to_string(fpt) + "/track=" + std::to_string(track);
        double worst = 0;
        for (unsigned yc = 9; yc + 9 < n; yc += 2) {
            float* din = in->getData(); std::fill(din, din + (size_t)n * n, 0.f);
            for (unsigned y = 0; y < n; y++) din[(size_t)c0 * n + y] = (float)std::exp(-0.5 * (y - (double)yc) * (y - (double)yc) / (sig * sig));
            double q0 = 0, m0 = 0; for (unsigned y = 0; y < n; y++) { q0 += din[(size_t)c0 * n + y]; m0 += (double)din[(size_t)c0 * n + y] * y; }
            PhaseSpace::Position pos{(float)c0, (float)yc};
            { std::vector<PhaseSpace::Position> one = {pos}; m.apply(); m.applyToAll(one); pos = one[0]; }
            const float* o = out->getData(); double q1 = 0, m1 = 0; for (unsigned y = 0; y < n; y++) { q1 += o[(size_t)c0 * n + y]; m1 += (double)o[(size_t)c0 * n + y] * y; }
            const double dc = m1 / q1 - m0 / q0, dp = pos.y - yc;
            R.eval(kase + " row=" + std::to_string(yc), mcx::fnv(&dp, 8, mcx::fnvs(kase) + yc), false);
            // the approximations are crude (they look at one stencil): a quarter of the true shift plus a hundredth of a cell is what they are held to
            const double tol = 0.25 * e1 * std::fabs(yc - zb) + 0.01;
            worst = std::max(worst, std::fabs(dp - dc) / tol);
            if (!(std::fabs(dp - dc) <= tol)) {
                char d[240]; snprintf(d, 240, "blob centred on row %u (zero-energy row %.4g, e1 %g): the charge's centre moves by %.5f cells, the particle by %.5f", yc, zb, e1, dc, dp);
                R.violate(key + "/does-not-follow-flow", kase, d); break;
            }
        }
        R.maxnum("worst_fpflow_difference_over_tol", worst);
    }
    // the stochastic model against a grid that is only damped, at large decrements (0.1, 0.2 per step: short damping times, few steps per period): the mean of an ensemble
    // placed on a blob's centre moves as the blob's centroid does (the noise has zero mean)
    for (unsigned n : ns) for (int ie = 0; ie < 2; ie++) for (int sy = 0; sy < 2; sy++) {
        std::string kase = mcx::Desc()("part", "fpflow-stochastic")("n", n)("e1idx", ie)("shifty", sy).str();
        if (!R.mine(kase)) continue;
        if (R.out_of_time()) { R.not_completed = kase; return; }
        set_size(n, 1);
        auto in = mkps_shift(n, 12, 0, sy * 3, {1.f}), out = mkps_shift(n, 12, 0, sy * 3, {1.f});
        const double e1 = ie == 0 ? 0.1 : 0.2;
        FokkerPlanckMap m(in, out, n, n, FokkerPlanckMap::FPType::damping_only, FokkerPlanckMap::FPTracking::stochastic, e1, FokkerPlanckMap::DerivationType::cubic, nullptr);
        m._prng.seed(4711 + n + ie); m._normdist.reset();
        const double zb = in->getAxis(1)->zerobin(), sig = 2.5; const unsigned c0 = n / 2, NP = 65536;
        double worst = 0;
        for (unsigned yc = 9; yc + 9 < n; yc += 4) {
            float* din = in->getData(); std::fill(din, din + (size_t)n * n, 0.f);
            for (unsigned y = 0; y < n; y++) din[(size_t)c0 * n + y] = (float)std::exp(-0.5 * (y - (double)yc) * (y - (double)yc) / (sig * sig));
            double q0 = 0, m0 = 0; for (unsigned y = 0; y < n; y++) { q0 += din[(size_t)c0 * n + y]; m0 += (double)din[(size_t)c0 * n + y] * y; }
            std::vector<PhaseSpace::Position> en(NP, PhaseSpace::Position{(float)c0, (float)yc});
            m.apply(); m.applyToAll(en);
            const float* o = out->getData(); double q1 = 0, m1 = 0; for (unsigned y = 0; y < n; y++) { q1 += o[(size_t)c0 * n + y]; m1 += (double)o[(size_t)c0 * n + y] * y; }
            double mu = 0, var = 0; for (auto& p : en) mu += p.y; mu /= NP; for (auto& p : en) var += (p.y - mu) * (p.y - mu); var /= NP;
            const double dc = m1 / q1 - m0 / q0, dp = mu - yc, tol = 5 * std::sqrt(var / NP) + 0.03 * e1 * std::fabs(yc - zb) + 0.01;
            R.maxnum("worst_fpflow_stochastic_abs_difference_cells", std::fabs(dp - dc));
            R.eval(kase + " row=" + std::to_string(yc), mcx::fnv(&dp, 8, mcx::fnvs(kase) + yc), false);
            worst = std::max(worst, std::fabs(dp - dc) / tol);
            if (!(std::fabs(dp - dc) <= tol)) {
                char d[240]; snprintf(d, 240, "blob centred on row %u (zero-energy row %.4g, e1 %g): the charge's centre moves by %.5f cells, the mean of %u particles by %.5f", yc, zb, e1, dc, NP, dp);
                R.violate("C15/FokkerPlanck/flow/stochastic/mean-does-not-follow-flow", kase, d); break;
            }
        }
        R.maxnum("worst_fpflow_stochastic_difference_over_tol", worst);
    }
    R.bound_done("fpflow: n x 4 Fokker-Planck types x 2 deterministic tracking approximations x stencils x 3 decrements x 2 zero-bin shifts x blob rows: particle shift = centroid shift of the blob it sits on");
}

// part=slow : the stochastic model with the tiny damping decrements of runs with thousands of steps per synchrotron period and a long damping time
//             (the program's defaults give 4e-6): an equilibrium ensemble keeps its mean and width over millions of steps.
static void part_slow(bool deep) {
    const unsigned n = 64, NP = 1024;
    for (int ie = 0; ie < (deep ? 3 : 1); ie++) for (int sy = 0; sy < (deep ? 2 : 1); sy++) {     // quick tier: the smallest decrement only, half the horizon
        const double e1 = ie == 0 ? 1.5e-7 : ie == 1 ? 4e-7 : 4.4e-6; const unsigned T = ie == 2 ? 1000000 : deep ? 6000000 : 3000000;
        std::string kase = mcx::Desc()("part", "slow")("n", n).f("e1", e1)("shifty", sy)("steps", T).str();
        if (!R.mine(kase)) continue;
        if (R.out_of_time()) { R.not_completed = kase; return; }
        set_size(n, 1);
        auto in = mkps_shift(n, 12, 0, sy * 3, {1.f}), out = mkps_shift(n, 12, 0, sy * 3, {1.f});
        FokkerPlanckMap m(in, out, n, n, FokkerPlanckMap::FPType::full, FokkerPlanckMap::FPTracking::stochastic, e1, FokkerPlanckMap::DerivationType::cubic, nullptr);
        m._prng.seed(4242 + ie); m._normdist.reset();
        const double zb = in->getAxis(1)->zerobin(), sig = 1.0 / in->getDelta(1);
        std::mt19937 g(777 + sy); std::normal_distribution<float> nd(0.f, 1.f);
        std::vector<PhaseSpace::Position> en(NP); for (auto& p : en) p = {n / 2.f, (float)(zb + sig * nd(g))};
        double mu0 = 0, v0 = 0; for (auto& p : en) mu0 += p.y; mu0 /= NP; for (auto& p : en) v0 += (p.y - mu0) * (p.y - mu0); v0 /= NP;
        for (unsigned k = 0; k < T; k++) m.applyToAll(en);
        double mu = 0, var = 0; bool inside = true; for (auto& p : en) { mu += p.y; if (!(p.y >= 0 && p.y <= n - 1)) inside = false; } mu /= NP; for (auto& p : en) var += (p.y - mu) * (p.y - mu); var /= NP;
        R.eval(kase, mcx::fnv(en.data(), sizeof(PhaseSpace::Position) * en.size(), mcx::fnvs(kase)), false);
        const double shift = (mu - zb) / sig, ratio = std::sqrt(var) / sig;
        R.maxnum("worst_slow_ensemble_shift_in_sigma", std::fabs(shift)); R.maxnum("worst_slow_ensemble_width_deviation", std::fabs(ratio - 1));
        // 1024 particles: the mean is known to 0.03 sigma, the width to 2.2 % - bounds at four standard errors
        if (!inside || !(std::fabs(shift) <= 0.125) || !(ratio >= 0.91 && ratio <= 1.09)) {
            char d[240]; snprintf(d, 240, "after %u steps (%.2f damping times) the ensemble mean is %.3f sigma off the zero-energy row (start %.3f) and its width %.3f of the equilibrium width (start %.3f)", T, T * e1, shift, (mu0 - zb) / sig, ratio, std::sqrt(v0) / sig);
            R.violate("C15/FokkerPlanck/track=3/slow-damping/ensemble-not-stationary", kase, d);
        }
    }
    R.bound_done("slow: stochastic model, decrements 1.5e-7, 4e-7, 4.4e-6 x 2 zero-bin shifts, ensemble of 1024 over 1-6 million steps");
}

// part=chain : the real map classes over several consecutive steps (static and dynamic RF kick with modulation / noise, drift with
//              higher orders): an impulse of charge and a particle start on the same lattice point; after every apply()+applyTo()
//              the centroid of the charge (which stays in its row) must coincide with the particle
static void part_chain(const std::vector<unsigned>& ns, unsigned steps) {
    static const char* CN[] = {"RFKickMap.linear", "RFKickMap.sin", "DynamicRF.linear.mod", "DynamicRF.sin.mod", "DynamicRF.linear.noise", "DynamicRF.sin.noise", "DriftMap", "DriftMap.alpha12", "DriftMap.alpha2"};
    for (unsigned n : ns) for (int kind = 0; kind < 9; kind++) for (unsigned it = 2; it <= 4; it++) for (int sh = 0; sh < 2; sh++) {
        std::string kase = mcx::Desc()("part", "chain")("map", CN[kind])("n", n)("it", it)("shift", sh).str();
        if (!R.mine(kase)) continue;
        if (R.out_of_time()) { R.not_completed = kase; return; }
        set_size(n, 1);
        auto in = mkps_shift(n, 12, sh ? 2 : 0, sh ? -1 : 0, {1.f}), out = mkps_shift(n, 12, sh ? 2 : 0, sh ? -1 : 0, {1.f});
        auto itt = (SourceMap::InterpolationType)it;
        const float angle = 2 * M_PI / 40; const double revpart = 0.01, frf = 5e8;
        const double bl2phase = 1e-3 / physcons::c * frf * 2 * M_PI, dE = in->getDelta(1) * 6.1e5;
        const double Veff = std::tan(angle) * dE / (in->getDelta(0) * revpart * bl2phase), V0 = 0.1 * Veff, VRF = std::sqrt(Veff * Veff + V0 * V0);
        std::shared_ptr<SourceMap> m; const bool ykick = kind < 6;
        switch (kind) {
        case 0: m = std::make_shared<RFKickMap>(in, out, angle, (float)frf, itt, false, nullptr); break;
        case 1: m = std::make_shared<RFKickMap>(in, out, (float)revpart, (float)VRF, (float)frf, (float)V0, itt, false, nullptr); break;
        case 2: m = std::make_shared<DynamicRFKickMap>(in, out, n, n, angle, revpart, frf, 0.f, 0.f, 0.05f, 0.11, steps, itt, false, nullptr); break;
        case 3: m = std::make_shared<DynamicRFKickMap>(in, out, n, n, revpart, VRF, frf, V0, 0.f, 0.f, 0.05f, 0.11, steps, itt, false, nullptr); break;
        case 4: m = std::make_shared<DynamicRFKickMap>(in, out, n, n, angle, revpart, frf, 0.003f, 0.05f, 0.f, 0.0, steps, itt, false, nullptr); break;
        case 5: m = std::make_shared<DynamicRFKickMap>(in, out, n, n, revpart, VRF, frf, V0, 0.003f, 0.05f, 0.02f, 0.07, steps, itt, false, nullptr); break;
        case 6: m = std::make_shared<DriftMap>(in, out, std::vector<float>{angle, 0.f, 0.f}, 1.3e9f, itt, false, nullptr); break;
        case 7: m = std::make_shared<DriftMap>(in, out, std::vector<float>{angle, 0.4f * angle, -0.3f * angle}, 1.3e9f, itt, false, nullptr); break;
        default: m = std::make_shared<DriftMap>(in, out, std::vector<float>{angle, 0.f, -0.3f * angle}, 1.3e9f, itt, false, nullptr); break;   // third order without a second one
        }
        const std::string key = std::string("C15/chain/") + CN[kind];
        double worst = 0; unsigned compared = 0;
        for (unsigned r0 = 2; r0 + 2 < n; r0++) {
            // one chain per row: the maps with a queue are rebuilt (their queue holds `steps` entries)
            if (kind >= 2 && kind <= 5 && r0 > 2) {
                if (kind == 2) m = std::make_shared<DynamicRFKickMap>(in, out, n, n, angle, revpart, frf, 0.f, 0.f, 0.05f, 0.11, steps, itt, false, nullptr);
                if (kind == 3) m = std::make_shared<DynamicRFKickMap>(in, out, n, n, revpart, VRF, frf, V0, 0.f, 0.f, 0.05f, 0.11, steps, itt, false, nullptr);
                if (kind == 4) m = std::make_shared<DynamicRFKickMap>(in, out, n, n, angle, revpart, frf, 0.003f, 0.05f, 0.f, 0.0, steps, itt, false, nullptr);
                if (kind == 5) m = std::make_shared<DynamicRFKickMap>(in, out, n, n, revpart, VRF, frf, V0, 0.003f, 0.05f, 0.02f, 0.07, steps, itt, false, nullptr);
            }
            const unsigned c0 = n / 2;
            float* din = in->getData(); std::fill(din, din + (size_t)n * n, 0.f);
            din[ykick ? (size_t)r0 * n + c0 : (size_t)c0 * n + r0] = 1.f;
            PhaseSpace::Position pos = ykick ? PhaseSpace::Position{(float)r0, (float)c0} : PhaseSpace::Position{(float)c0, (float)r0};
            for (unsigned k = 0; k < steps; k++) {
                { std::vector<PhaseSpace::Position> one = {pos}; m->apply(); m->applyToAll(one); pos = one[0]; }   // as the main loop does
                const float* o = out->getData(); double q = 0, mo = 0;
                for (unsigned c = 0; c < n; c++) { double v = o[ykick ? (size_t)r0 * n + c : (size_t)c * n + r0]; q += v; mo += v * c; }
                const double cen = mo / q, got = ykick ? pos.y : pos.x;
                R.eval(kase + " row=" + std::to_string(r0) + " step=" + std::to_string(k), mcx::fnv(&got, 8, mcx::fnvs(kase) + r0 * 100 + k), false);
                if (!std::isfinite(got) || got < 0 || got > n - 1) { char d[160]; snprintf(d, 160, "row %u step %u: particle at %g", r0, k, got); R.violate(key + "/leaves-grid", kase, d); break; }
                if (std::fabs(q - 1) > 2e-6 || cen < 3 || cen > n - 4) break;    // the charge (or the far lobes of the interpolation) reaches the border: the comparison ends for this row
                worst = std::max(worst, std::fabs(cen - got)); compared++;
                if (!(std::fabs(cen - got) <= 5e-4)) {
                    char d[240]; snprintf(d, 240, "row %u step %u: particle at %.6f, centre of the charge it started on at %.6f", r0, k, got, cen);
                    R.violate(key + "/does-not-follow-flow", kase, d); break;
                }
                std::copy(o, o + (size_t)n * n, in->getData());
            }
        }
        R.maxnum("worst_chain_particle_vs_centroid", worst); R.addnum("sum_chain_comparisons", compared); R.maxnum("worst_chain_fraction_not_compared", 1.0 - compared / double((n - 4) * steps));
        // the comparison ends where the charge reaches the border; a map that loses the charge at once must not pass by leaving nothing to compare
        // (deterministic kicks: at least two steps per row; with random noise the blob may be thrown out early: at least one step per row on average)
        if (compared < (n - 4) * ((kind == 4 || kind == 5) ? 1 : 2)) R.violate(key + "/charge-lost-before-comparison", kase, "only " + std::to_string(compared) + " (row, step) comparisons were possible");
    }
    R.bound_done("chain: n x {static RF linear/sin, dynamic RF linear/sin with modulation / with noise, drift, drift with alpha1,2, drift with alpha2 only} x it{2,3,4} x 2 grid shifts x every interior row x " + std::to_string(steps) + " consecutive steps");
}

int main(int argc, char** argv) {
    R.init(argc, argv, "C15", "C15_tracking"); quiet();
    R.rule = "kick: one evaluation = one particle position x offset pair through the real applyTo (plus apply on a two-row blob in the interior); fp: one evaluation = one lattice of particles followed for many steps; "
             "distinct = FNV of case + resulting coordinates; trivial = zero offsets / tracking model none";
    R.sample_every = 20000;
    const bool T = true /* the wide lattices run in both tiers */; const bool D = R.thorough(); (void)D;
    part_kick(D ? std::vector<unsigned>{12, 16, 17, 24, 32, 33} : std::vector<unsigned>{12, 16, 17, 24});
    part_fp(T ? std::vector<unsigned>{12, 16, 17, 32, 33, 48} : std::vector<unsigned>{12, 13, 32}, T ? 32 : 4, T ? 400 : 200);
    part_fpflow(D ? std::vector<unsigned>{32, 33, 48, 64} : std::vector<unsigned>{32, 48});
    part_chain(D ? std::vector<unsigned>{16, 17, 32, 33, 64} : std::vector<unsigned>{16, 17, 32}, D ? 24 : 12);
    if (R.block == 1) part_slow(D);     // (once: in the round-robin pass)
    return R.finish();
}
