// C04 (API level): without impedance every start relaxes to the unit-width natural Gaussian.
// The real FokkerPlanckMap is chained with the real RF kick and drift over three grids as main() chains them; the RMS sizes are read
// through the real PhaseSpace projections/moments after every step.
//  full      : after 8 damping times both sizes are within 0.005 + 0.45 cell^2 of 1, flat over the last damping time, and the limit is the
//              same for every initial zoom
//  damping   : sigma_q^2 + sigma_p^2 (which the rotation conserves) never increases; without rotation sigma_p never increases
//  diffusion : ... never decreases
//  none      : sizes stay put (within the interpolation's own numerical diffusion)
#include "inov.hpp"
using namespace inov;
static mcx::Report R;

struct Series { std::vector<double> sq, sp; bool finite = true; };

static Series run(unsigned n, unsigned steps, double e1, int stencil, unsigned it, double zoom, int fptype, bool rotate, unsigned nsteps) {
    set_size(n, 1);
    const double E0 = 1.3e9, dE = 4.7e-4 * E0;
    auto g1 = mkps(-6, 6, -6, 6, {1.f}, nullptr, zoom, 1e-3, dE), g2 = mkps(-6, 6, -6, 6, {1.f}, nullptr, zoom, 1e-3, dE), g3 = mkps(-6, 6, -6, 6, {1.f}, nullptr, zoom, 1e-3, dE);
    auto itt = (SourceMap::InterpolationType)it; const float angle = 2 * M_PI / steps;
    Identity wm(g1, g2, nullptr);
    std::unique_ptr<SourceMap> rf, dr, fp;
    if (rotate) { rf.reset(new RFKickMap(g2, g1, angle, 5e8f, itt, false, nullptr)); dr.reset(new DriftMap(g1, g3, std::vector<float>{angle, 0.f, 0.f}, (float)E0, itt, false, nullptr)); }
    else { rf.reset(new Identity(g2, g1, nullptr)); dr.reset(new Identity(g1, g3, nullptr)); }
    fp.reset(new FokkerPlanckMap(g3, g1, n, n, (FokkerPlanckMap::FPType)fptype, FokkerPlanckMap::FPTracking::none, e1, (FokkerPlanckMap::DerivationType)stencil, nullptr));
    Series s;
    auto measure = [&]() { g1->updateXProjection(); g1->updateYProjection(); g1->integrate(); g1->variance(0); g1->variance(1); s.sq.push_back(g1->getBunchLength()[0]); s.sp.push_back(g1->getEnergySpread()[0]);
                           if (!std::isfinite(s.sq.back()) || !std::isfinite(s.sp.back())) s.finite = false; };
    measure();
    for (unsigned k = 0; k < nsteps && s.finite; k++) { wm.apply(); rf->apply(); dr->apply(); fp->apply(); measure(); }
    return s;
}

int main(int argc, char** argv) {
    R.init(argc, argv, "C04", "C04_relax"); quiet();
    R.rule = "one evaluation = one trajectory of the real Fokker-Planck (+ rotation) chain, invariants checked at every step; distinct = FNV of case + RMS series; trivial = none";
    R.sample_every = 100;
    const bool T = true /* the wide lattices run in both tiers */; const bool D = R.thorough(); (void)D;
    std::vector<unsigned> ns = T ? std::vector<unsigned>{32, 33, 48, 64} : std::vector<unsigned>{32, 33, 48};
    std::vector<unsigned> stepss = T ? std::vector<unsigned>{50, 100} : std::vector<unsigned>{50, 100};
    if (D) { ns.push_back(65); ns.push_back(96); stepss.push_back(200); }
    std::vector<double> Tds = T ? std::vector<double>{0.5, 1, 2, 4} : std::vector<double>{1, 2};
    std::vector<double> zooms = T ? std::vector<double>{0.5, 0.8, 1, 1.3, 1.6} : std::vector<double>{0.6, 1, 1.4};
    double worst_limit = 0, worst_flat = 0, worst_zoom = 0, worst_none = 0;
    // ---- full Fokker-Planck: limit, flatness, independence of the start
    for (unsigned n : ns) for (unsigned steps : stepss) for (double Td : Tds) for (int stencil = 3; stencil <= 4; stencil++) for (unsigned it = 3; it <= 4; it++) {
        const double e1 = 2.0 / (Td * steps), d = 12.0 / (n - 1);
        if (e1 / (d * d) > 0.5) continue;    // outside the explicit scheme's stable range
        std::string kase = mcx::Desc()("type", "full")("n", n)("steps", steps).f("Td", Td)("stencil", stencil)("it", it).str();
        if (!R.mine(kase)) continue;
        if (R.out_of_time()) { R.not_completed = kase; goto done; }
        const unsigned horizon = (unsigned)std::ceil(8 * Td * steps), last = (unsigned)std::ceil(Td * steps);
        const std::string key = "C04/full/stencil=" + std::to_string(stencil);
        double lim_q[8], lim_p[8]; int nz = 0;
        for (double zoom : zooms) {
            if (zoom * 2.5 < 1 && zoom / d < 2.5) continue;   // start not resolved by this grid
            Series s = run(n, steps, e1, stencil, it, zoom, 3, true, horizon);
            R.eval(kase + " zoom=" + mcx::fstr(zoom), mcx::fnv(s.sp.data(), 8 * s.sp.size(), mcx::fnvs(kase)), false);
            if (!s.finite) { R.violate(key + "/non-finite", kase, "zoom " + mcx::fstr(zoom)); continue; }
            const double tol = 0.005 + 0.45 * d * d;
            // the kick-drift splitting makes the two sizes beat around the mean: compare the mean over the last period
            double mq = 0, mp = 0, lo = 1e9, hi = -1e9; unsigned cnt = 0;
            for (unsigned k = horizon - steps + 1; k <= horizon; k++) { mq += s.sq[k]; mp += s.sp[k]; cnt++; }
            mq /= cnt; mp /= cnt;
            for (unsigned k = horizon - last; k + steps <= horizon; k++) { double m = 0; for (unsigned j = 0; j < steps; j++) m += s.sp[k + j]; m /= steps; lo = std::min(lo, m); hi = std::max(hi, m); }
            worst_limit = std::max(worst_limit, std::max(std::fabs(mq - 1), std::fabs(mp - 1)) / tol);
            if (!(std::fabs(mq - 1) <= tol) || !(std::fabs(mp - 1) <= tol)) { char b[200]; snprintf(b, 200, "zoom %g: after 8 damping times bunch length %.5f, energy spread %.5f (tolerance %.4f)", zoom, mq, mp, tol); R.violate(key + "/wrong-limit", kase, b); }
            if (last >= steps) { worst_flat = std::max(worst_flat, (hi - lo) / 5e-6); if (!(hi - lo <= 5e-6)) { char b[200]; snprintf(b, 200, "zoom %g: period-averaged energy spread still moves by %.3g over the last damping time", zoom, hi - lo); R.violate(key + "/not-stationary", kase, b); } }
            lim_q[nz] = mq; lim_p[nz] = mp; nz++;
        }
        for (int i = 1; i < nz; i++) { const double dz = std::max(std::fabs(lim_q[i] - lim_q[0]), std::fabs(lim_p[i] - lim_p[0])); worst_zoom = std::max(worst_zoom, dz / 1e-5);
            if (!(dz <= 1e-5)) { char b[200]; snprintf(b, 200, "limits depend on the initial zoom: %.6f/%.6f vs %.6f/%.6f", lim_q[i], lim_p[i], lim_q[0], lim_p[0]); R.violate(key + "/limit-depends-on-start", kase, b); } }
    }
    // ---- damping only / diffusion only / none: monotonicity
    for (unsigned n : (T ? std::vector<unsigned>{48, 64, 96} : std::vector<unsigned>{48, 64})) for (unsigned steps : (T ? std::vector<unsigned>{50, 100, 200} : std::vector<unsigned>{100})) for (double Td : (T ? std::vector<double>{1, 2, 4} : std::vector<double>{1, 4})) for (int stencil = 3; stencil <= 4; stencil++)
    for (int type = 0; type < 3; type++) for (int rot = 0; rot < 2; rot++) for (double zoom : {0.6, 0.8, 1.0, 1.3}) {
        const double e1 = 2.0 / (Td * steps), d = 12.0 / (n - 1);
        if (e1 / (d * d) > 0.5 || zoom / d < 2.8) continue;
        std::string kase = mcx::Desc()("type", type == 0 ? "none" : type == 1 ? "damping" : "diffusion")("n", n)("steps", steps).f("Td", Td)("stencil", stencil)("rotate", rot).f("zoom", zoom).str();
        if (!R.mine(kase)) continue;
        if (R.out_of_time()) { R.not_completed = kase; goto done; }
        // damping only narrows the bunch below the grid resolution eventually: stop while it is still resolved
        const unsigned horizon = type == 1 ? (unsigned)(0.4 * Td * steps) : (unsigned)(Td * steps);
        Series s = run(n, steps, e1, stencil, 4, zoom, type, rot, horizon);
        R.eval(kase, mcx::fnv(s.sp.data(), 8 * s.sp.size(), mcx::fnvs(kase)), false);
        const std::string key = std::string("C04/") + (type == 0 ? "none" : type == 1 ? "damping-only" : "diffusion-only") + "/stencil=" + std::to_string(stencil) + (rot ? "/rotating" : "/fp-alone");
        if (!s.finite) { R.violate(key + "/non-finite", kase, ""); continue; }
        for (unsigned k = 1; k < s.sp.size(); k++) {
            const double a0 = rot ? s.sq[k - 1] * s.sq[k - 1] + s.sp[k - 1] * s.sp[k - 1] : s.sp[k - 1], a1 = rot ? s.sq[k] * s.sq[k] + s.sp[k] * s.sp[k] : s.sp[k];
            if (type == 1 && !(a1 <= a0 + 2e-6)) { char b[200]; snprintf(b, 200, "step %u: %s grows from %.7f to %.7f under damping only", k, rot ? "sigma_q^2+sigma_p^2" : "energy spread", a0, a1); R.violate(key + "/not-monotonic", kase, b); break; }
            if (type == 2 && !(a1 >= a0 - 2e-6)) { char b[200]; snprintf(b, 200, "step %u: %s shrinks from %.7f to %.7f under diffusion only", k, rot ? "sigma_q^2+sigma_p^2" : "energy spread", a0, a1); R.violate(key + "/not-monotonic", kase, b); break; }
        }
        if (type == 1 && !(s.sp.back() < s.sp.front() - 0.02 * s.sp.front())) { char b[160]; snprintf(b, 160, "energy spread %.5f -> %.5f: no shrinking under damping only", s.sp.front(), s.sp.back()); R.violate(key + "/no-effect", kase, b); }
        if (type == 2 && !(s.sp.back() > s.sp.front() + 0.02 * s.sp.front())) { char b[160]; snprintf(b, 160, "energy spread %.5f -> %.5f: no growth under diffusion only", s.sp.front(), s.sp.back()); R.violate(key + "/no-effect", kase, b); }
        if (type == 0) {
            double dev = 0; for (unsigned k = 0; k < s.sp.size(); k++) dev = std::max(dev, std::max(std::fabs(s.sp[k] * s.sp[k] + s.sq[k] * s.sq[k] - s.sp[0] * s.sp[0] - s.sq[0] * s.sq[0]), rot ? 0.0 : std::fabs(s.sp[k] - s.sp[0])));
            worst_none = std::max(worst_none, dev / 0.05);
            if (!(dev <= 0.05)) { char b[160]; snprintf(b, 160, "sizes drift by %.4g without damping and diffusion", dev); R.violate(key + "/does-not-stay-put", kase, b); }
        }
    }
done:
    R.numbers["worst_limit_error_over_tol"] = worst_limit; R.numbers["worst_flatness_over_tol"] = worst_flat; R.numbers["worst_zoom_dependence_over_tol"] = worst_zoom; R.numbers["worst_none_drift_over_tol"] = worst_none;
    R.bound_done("full: n x steps x damping times x stencils x it x zooms, 8 damping times; none/damping/diffusion: n x steps x Td x stencils x {FP alone, with rotation} x zooms");
    return R.finish();
}
