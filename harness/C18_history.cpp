// C18: wake and CSR spectrum depend on the current profile only - explicit-state search over call histories of the
// real ElectricField.  Alphabet: P0,P1,P2,P3 (set all bunch profiles to alphabet entry i; P3 leaves the last bunch without any charge), W (wakePotential), D (padBunchProfiles),
// C (updateCSR(0)), F (updateCSR(fc)).  A state is the history that reaches it, replayed on a fresh object; its canonical form
// is the FNV hash of every internal buffer plus the current profile index (merging is sound: the future behaviour of the object
// is a function of exactly these buffers and of the profile held by the PhaseSpace).
// Breadth-first until no new canonical state appears (closure) or the depth bound.  Invariant in every state: each output
// requested since the last profile change is bit-identical to what a fresh object returns for that profile.
#include "efield.hpp"
#include <deque>
using namespace ef;
static mcx::Report R;

static const char OPS[] = {'0', '1', '2', '3', '4', 'W', 'D', 'C', 'F'};
static int ZKIND = 0;
static unsigned NBCUR = 1;   // profile 3: the last bunch of the train holds no charge at all (every bin zero), the others a dense profile
struct Out { std::vector<float> wake, pad, specC, specF; float powC = 0, powF = 0; };

static std::vector<float> profile(unsigned n, unsigned b, int i) {
    std::vector<float> p(n);
    if (i == 4) { if (b == 0) return profile(n, 0, 1); for (unsigned x = 0; x < n; x++) p[x] = 0.05f + std::fabs(std::sin(1.9f * x + 2 * b)); return p; }   // profile 4: the first bunch as in profile 1 (bit-identical), the others different
    if (i == 3) { if (b + 1 == NBCUR) return p; for (unsigned x = 0; x < n; x++) p[x] = 0.3f + std::fabs(std::cos(0.7f * x + b)); return p; }
    for (unsigned x = 0; x < n; x++) p[x] = i == 0 ? (x == (1 + b) % n ? 1.f : 0.f) : i == 1 ? 0.1f + std::fabs(std::sin(0.9f * x + b)) : (float)((x * 5 + b * 3) % 7) / 7.f + (x == n - 1 ? 2.f : 0.f);
    return p;
}
static float cutoff(Rig& r) { return (float)(0.5 * r.f->getFreqRuler()->scale("Hertz") * r.f->getFreqRuler()->max() / 4); }

static void apply_op(Rig& r, char op, int& cur) {
    switch (op) {
    case '0': case '1': case '2': case '3': case '4': cur = op - '0'; NBCUR = r.c.nb;
        for (unsigned b = 0; b < r.c.nb; b++) { auto p = profile(r.c.n, b, cur);
            // impedance table 3 (values of 3e37 Ohm): profiles 0 and 1 are weak bunches (1e-6, 1e-3: their wake is finite), the others overflow single precision
            if (ZKIND == 3) { const float sc = cur == 0 ? 1e-6f : cur == 1 ? 1e-3f : 1.f; for (auto& v : p) v *= sc; }
            r.set_profile(b, p); }
        break;
    case 'W': r.f->wakePotential(); break;
    case 'D': r.f->padBunchProfiles(); break;
    case 'C': r.f->updateCSR(0); break;
    case 'F': r.f->updateCSR(cutoff(r)); break;
    }
}
// (declared above) shape of the impedance table: 0 = zero above N/2 (as every model), 1 = zero from N/4 on (a short user table alone), 2 = non-zero everywhere (a user table given with its negative-frequency half)
static void set_impedance(Rig& r) {
    std::vector<impedance_t> Z(r.c.N);
    const unsigned top = (ZKIND == 0 || ZKIND == 3) ? r.c.N / 2 : ZKIND == 1 ? r.c.N / 4 : r.c.N;
    for (unsigned k = 0; k < r.c.N; k++) Z[k] = k <= top ? impedance_t(20.f + 10.f * std::fabs(std::sin(0.37f * k)), 15.f * std::cos(0.21f * k)) : impedance_t(0, 0);
    if (ZKIND == 3) for (unsigned k = 0; k < r.c.N; k++) Z[k] = k <= r.c.N / 2 ? impedance_t(3e37f, 0.f) : impedance_t(0, 0);      // so large that an order-one bunch overflows the transform
    r.set_z(Z);
}
static uint64_t canon(Rig& r, int cur, unsigned requested) {
    const unsigned N = r.c.N; uint64_t h = mcx::fnv(&cur, 4); (void)requested;   // the future of a state depends on the buffers and the current profile only
    h = mcx::fnv(r.f->_bp_padded, 4 * N, h); h = mcx::fnv(r.f->_formfactor, 8 * N, h); h = mcx::fnv(r.f->_wakelosses, 8 * N, h);
    h = mcx::fnv(r.f->_wakepotential_padded, 4 * N, h); h = mcx::fnv(r.f->_wakepotential.data(), 4 * r.c.n * r.c.nb, h);
    h = mcx::fnv(r.f->_csrspectrum.data(), 4 * N * r.c.nb, h); h = mcx::fnv(r.f->_csrintensity.data(), 4 * r.c.nb, h);
    return h;
}
static void grab(Rig& r, char op, Out& o) {
    const unsigned N = r.c.N, n = r.c.n, nb = r.c.nb;
    if (op == 'W') { o.wake.assign(r.f->_wakepotential.data(), r.f->_wakepotential.data() + n * nb); o.pad.assign(r.f->getPaddedBunchProfiles(), r.f->getPaddedBunchProfiles() + N); }
    if (op == 'D') o.pad.assign(r.f->getPaddedBunchProfiles(), r.f->getPaddedBunchProfiles() + N);
    if (op == 'C') { o.specC.assign(r.f->getCSRSpectrum(), r.f->getCSRSpectrum() + N * nb); o.specC.insert(o.specC.end(), r.f->getCSRPower(), r.f->getCSRPower() + nb); }
    if (op == 'F') { o.specF.assign(r.f->getCSRSpectrum(), r.f->getCSRSpectrum() + N * nb); o.specF.insert(o.specF.end(), r.f->getCSRPower(), r.f->getCSRPower() + nb); }
}
static bool same(const std::vector<float>& a, const std::vector<float>& b) { return a.size() == b.size() && (a.empty() || memcmp(a.data(), b.data(), 4 * a.size()) == 0); }

int main(int argc, char** argv) {
    R.init(argc, argv, "C18", "C18_history"); quiet();
    R.rule = "state = call history replayed on a fresh real ElectricField, deduplicated by the FNV hash of all internal buffers; every edge is executed on the implementation; "
             "evaluations = edges executed; distinct = canonical states";
    const bool T = true /* the wide lattices run in both tiers */; const bool D = R.thorough(); (void)D;
    const unsigned maxdepth = D ? 18 : 14;
    std::vector<Cfg> cfgs;
    for (unsigned N : (D ? std::vector<unsigned>{16, 24, 30, 32, 33, 37, 64, 75, 128, 150, 255, 256} : std::vector<unsigned>{16, 30, 33, 64})) {
        cfgs.push_back(Cfg{4, 1, N, 0, {0}});       // as main() builds the radiation field
        cfgs.push_back(Cfg{4, 1, N, 5, {1}});       // single bunch not in bucket 0
        cfgs.push_back(Cfg{4, 2, N, 5, {1, 0}});
        cfgs.push_back(Cfg{4, 2, N, 5, {2, 0}});
        cfgs.push_back(Cfg{4, 2, N, 0, {1, 0}});    // two bunches, no spacing (radiation field of a two-bunch run)
    }
    if (R.warm) { std::set<unsigned> seen; for (auto& c : cfgs) if (seen.insert(c.N).second) { Rig r(c); r.f->wakePotential(); } return 0; }
    uint64_t states = 0, transitions = 0, closed = 0; unsigned deepest = 0;
    for (auto& c : cfgs) for (int zk = 0; zk < 4; zk++) {
        if (zk && !T && !(c.N == 16 || c.N == 33 || c.N == 64)) continue;
        if (zk == 3 && c.N != 16 && c.N != 30) continue;      // (the overflowing table: two transform lengths)
        std::string kase = mcx::Desc()("n", c.n)("N", c.N)("buckets", bstr(c.buckets))("spacing", c.spacing)("ztable", zk == 0 ? "half" : zk == 1 ? "short" : zk == 2 ? "full" : "overflowing").str();
        if (!R.mine(kase)) continue;
        if (R.out_of_time()) { R.not_completed = kase; break; }
        ZKIND = zk;
        // reference outputs of fresh objects: (profile, op)
        Out fresh[5];
        for (int p = 0; p < 5; p++) for (char op : {'W', 'D', 'C', 'F'}) {
            Rig r(c); set_impedance(r); int cur = -1; apply_op(r, (char)('0' + p), cur); apply_op(r, op, cur);
            Out o; grab(r, op, o);
            if (op == 'W') { fresh[p].wake = o.wake; if (zk == 3) { bool fin = true; for (float v : o.wake) fin = fin && std::isfinite(v); R.addnum(fin ? "sum_overflowing_table_profiles_with_a_finite_wake" : "sum_overflowing_table_profiles_with_a_non_finite_wake", 1); } } if (op == 'D') fresh[p].pad = o.pad; if (op == 'C') fresh[p].specC = o.specC; if (op == 'F') fresh[p].specF = o.specF;
            // replay determinism: a second fresh object must give the same bits
            Rig r2(c); set_impedance(r2); int c2 = -1; apply_op(r2, (char)('0' + p), c2); apply_op(r2, op, c2); Out o2; grab(r2, op, o2);
            if (!same(o.wake, o2.wake) || !same(o.pad, o2.pad) || !same(o.specC, o2.specC) || !same(o.specF, o2.specF))
                R.violate("C18/fresh-objects-disagree", kase, std::string("profile ") + std::to_string(p) + " op " + op);
        }
        std::unordered_set<uint64_t> seen; std::deque<std::string> frontier; frontier.push_back("");
        { Rig r(c); set_impedance(r); seen.insert(canon(r, -1, 0)); }
        bool reached_bound = false;
        const std::string keyb = std::string("C18/") + (c.nb > 1 ? "nb>1" : c.buckets[0] ? "bucket>0" : "bucket0");
        while (!frontier.empty()) {
            std::string hist = frontier.front(); frontier.pop_front();
            if (hist.size() >= maxdepth) { reached_bound = true; continue; }
            for (char op : OPS) {
                if (hist.empty() && !(op >= '0' && op <= '4')) continue;   // a profile must be set first
                if (op == '4' && c.nb < 2) continue;                               // (for a single bunch profile 4 is profile 1)
                std::string h2 = hist + op;
                Rig r(c); set_impedance(r); int cur = -1; unsigned requested = 0;
                for (char o : h2) { apply_op(r, o, cur); if (o >= '0' && o <= '4') requested = 0; else requested |= (o == 'W' ? 1 : o == 'D' ? 2 : o == 'C' ? 4 : 8); }
                transitions++;
                // invariant for the output just requested (outputs requested earlier were checked when they were requested; a later
                // operation overwriting them is legitimate only for C/F which share the spectrum buffer)
                Out o; grab(r, op, o);
                bool ok = true; std::string whatbad;
                if (op == 'W' && !same(o.wake, fresh[cur].wake)) { ok = false; whatbad = "wake potential"; }
                if (op == 'D' && !same(o.pad, fresh[cur].pad)) { ok = false; whatbad = "padded profile"; }
                if (op == 'C' && !same(o.specC, fresh[cur].specC)) { ok = false; whatbad = "CSR spectrum (no cut-off)"; }
                if (op == 'F' && !same(o.specF, fresh[cur].specF)) { ok = false; whatbad = "CSR spectrum (cut-off)"; }
                uint64_t k = canon(r, cur, requested);
                R.eval(kase + " history=" + h2, k, false);
                if (!ok) {
                    R.violate(keyb + "/" + std::string(1, op) + "-differs-from-fresh", kase, "after history " + h2 + " the " + whatbad + " differs from a fresh object's for profile " + std::to_string(cur));
                    continue;   // do not expand violating states
                }
                deepest = std::max(deepest, (unsigned)h2.size());
                if (seen.insert(k).second) frontier.push_back(h2);
            }
        }
        states += seen.size();
        if (!reached_bound) closed++;
        R.texts["closure " + kase] = reached_bound ? ("depth bound " + std::to_string(maxdepth) + " reached") : "closed: no new canonical state";
    }
    // ---- two field objects on the same phase space (as main() has a radiation field and a wake field): operations on one must not
    //      change what the other returns.  Alphabet: P0,P1 | W,C on object A | w,c on object B | x = B destroyed; depth-bounded BFS with canonical hashing of BOTH
    ZKIND = 0;
    for (auto& c : cfgs) {
        if (!(c.N == 16 || c.N == 33 || (T && c.N == 64))) continue;
        std::string kase = mcx::Desc()("two-objects", 1)("n", c.n)("N", c.N)("buckets", bstr(c.buckets))("spacing", c.spacing).str();
        if (!R.mine(kase)) continue;
        if (R.out_of_time()) { R.not_completed = kase; break; }
        const unsigned depth2 = T ? 7 : 5;
        auto mkB = [&](Rig& r) { auto z = std::make_shared<Impedance>(std::vector<impedance_t>(c.N, impedance_t(7.f, -3.f)), 1e12f);
                                 return std::unique_ptr<ElectricField>(new ElectricField(r.ps, z, c.buckets, c.spacing, nullptr, r.frev, r.revpart, r.Ib, r.E0, r.sd, r.dt)); };
        auto grab2 = [&](ElectricField& f, char op, std::vector<float>& o) {
            if (op == 'W') o.assign(f._wakepotential.data(), f._wakepotential.data() + c.n * c.nb);
            else { o.assign(f.getCSRSpectrum(), f.getCSRSpectrum() + c.N * c.nb); o.insert(o.end(), f.getCSRPower(), f.getCSRPower() + c.nb); } };
        auto hashf = [&](ElectricField& f, uint64_t h) { const unsigned N = c.N;
            h = mcx::fnv(f._bp_padded, 4 * N, h); h = mcx::fnv(f._formfactor, 8 * N, h); h = mcx::fnv(f._wakelosses, 8 * N, h); h = mcx::fnv(f._wakepotential_padded, 4 * N, h);
            h = mcx::fnv(f._wakepotential.data(), 4 * c.n * c.nb, h); h = mcx::fnv(f._csrspectrum.data(), 4 * N * c.nb, h); return mcx::fnv(f._csrintensity.data(), 4 * c.nb, h); };
        std::vector<float> fresh2[2][2][2];   // [profile][object][op]
        for (int p = 0; p < 2; p++) for (int ob = 0; ob < 2; ob++) for (int op = 0; op < 2; op++) {
            Rig r(c); set_impedance(r); auto B = mkB(r); int cur = -1; apply_op(r, (char)('0' + p), cur);
            ElectricField& f = ob ? *B : *r.f; if (op == 0) f.wakePotential(); else f.updateCSR(0);
            grab2(f, op == 0 ? 'W' : 'C', fresh2[p][ob][op]);
        }
        std::unordered_set<uint64_t> seen; std::deque<std::string> frontier; frontier.push_back("");
        const char ops2[] = {'0', '1', 'W', 'C', 'w', 'c', 'x'};     // x: object B is destroyed (its destructor tidies up the FFT library's global state) - A goes on
        while (!frontier.empty()) {
            std::string hist = frontier.front(); frontier.pop_front();
            if (hist.size() >= depth2) continue;
            for (char op : ops2) {
                if (hist.empty() && !(op == '0' || op == '1')) continue;
                const bool gone = hist.find('x') != std::string::npos;
                if (gone && (op == 'w' || op == 'c' || op == 'x')) continue;      // B is destroyed once, and not used afterwards
                std::string h2 = hist + op;
                Rig r(c); set_impedance(r); auto B = mkB(r); int cur = -1;
                for (char o : h2) { if (o == '0' || o == '1') apply_op(r, o, cur); else if (o == 'x') B.reset(); else { ElectricField& f = (o == 'w' || o == 'c') ? *B : *r.f; if (o == 'W' || o == 'w') f.wakePotential(); else f.updateCSR(0); } }
                transitions++;
                uint64_t k = B ? hashf(*B, hashf(*r.f, mcx::fnv(&cur, 4))) : hashf(*r.f, mcx::fnv(&cur, 4, 0x9e3779b97f4a7c15ull));
                R.eval(kase + " history=" + h2, k, false);
                if (op != '0' && op != '1' && op != 'x') {
                    const int ob = (op == 'w' || op == 'c'), oi = (op == 'C' || op == 'c');
                    std::vector<float> o; grab2(ob ? *B : *r.f, oi ? 'C' : 'W', o);
                    if (!same(o, fresh2[cur][ob][oi])) { R.violate(std::string("C18/two-objects/") + (oi ? "csr" : "wake") + "-differs-from-fresh", kase, "after history " + h2 + " (capitals: object A, small letters: object B on the same phase space) the result differs from a fresh pair's"); continue; }
                }
                if (seen.insert(k).second) frontier.push_back(h2);
            }
        }
        states += seen.size();
    }
    R.numbers["states"] = (double)states; R.numbers["transitions"] = (double)transitions; R.numbers["sum_configurations_closed"] = (double)closed; R.numbers["deepest_history"] = deepest;
    R.bound_done("BFS over {P0,P1,P2,P3 (last bunch empty),P4 (first bunch as in P1, the others changed),W,D,C,F} histories to closure or depth " + std::to_string(maxdepth) + " per configuration; " + std::to_string(cfgs.size()) + " configurations x impedance table shapes {zero above N/2, short table, full spectrum; + one of 3e37 Ohm on two lengths: weak bunches finite, the others overflow}");
    return R.finish();
}
