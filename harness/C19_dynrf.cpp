// C19: zero-amplitude RF modulation == static RF (bit for bit); applied modulation is recorded exactly once per step.
//  part=zero  : both RF models, all amplitudes zero: DynamicRFKickMap::apply / getForce == static RFKickMap at every step
//  part=proto : explicit-state search over all {A = apply, G = getPastModulation} sequences up to the depth bound (at most
//               `steps` applies); after every A the kick in force is the one of queue entry k (recomputed with a static map);
//               the concatenation of all flushes equals the first #applied queue entries, in order; a pure sinusoidal
//               modulation has the configured amplitude and frequency
#include "inov.hpp"
#include <deque>
using namespace inov;
static mcx::Report R;

struct Par { unsigned n; unsigned it; int model; int var; };
struct Phys { float angle; double revpart, frf, Veff, V0, VRF; };
static Phys phys(psptr in, int var) {
    Phys p; p.angle = 2 * M_PI / (var == 0 ? 50 : var == 1 ? 24 : 200); p.revpart = 0.01; p.frf = 5e8;
    const double bl2phase = 1e-3 / physcons::c * p.frf * 2 * M_PI, dE = in->getDelta(1) * 6.1e5;
    p.Veff = std::tan(p.angle) * dE / (in->getDelta(0) * p.revpart * bl2phase); p.V0 = (var == 2 ? 0.3 : 0.1) * p.Veff; p.VRF = std::sqrt(p.Veff * p.Veff + p.V0 * p.V0);
    return p;
}
static std::vector<float> blob(unsigned n) {
    std::vector<float> d((size_t)n * n);
    for (unsigned x = 0; x < n; x++) for (unsigned y = 0; y < n; y++) d[(size_t)x * n + y] = std::exp(-((x - n / 2.f - 0.7f) * (x - n / 2.f - 0.7f) + (y - n / 2.f + 0.4f) * (y - n / 2.f + 0.4f)) / 5.f) + 0.01f * ((x * 3 + y) % 4);
    return d;
}
static std::shared_ptr<DynamicRFKickMap> mkdyn(psptr in, psptr out, const Par& q, const Phys& p, float phspread, float amspread, float modampl, double modinc, unsigned steps) {
    auto itt = (SourceMap::InterpolationType)q.it;
    if (q.model == 0) return std::make_shared<DynamicRFKickMap>(in, out, q.n, q.n, p.angle, p.revpart, p.frf, phspread, amspread, modampl, modinc, steps, itt, false, nullptr);
    return std::make_shared<DynamicRFKickMap>(in, out, q.n, q.n, p.revpart, p.VRF, p.frf, p.V0, phspread, amspread, modampl, modinc, steps, itt, false, nullptr);
}
static std::shared_ptr<RFKickMap> mkstat(psptr in, psptr out, const Par& q, const Phys& p) {
    auto itt = (SourceMap::InterpolationType)q.it;
    if (q.model == 0) return std::make_shared<RFKickMap>(in, out, p.angle, (float)p.frf, itt, false, nullptr);
    return std::make_shared<RFKickMap>(in, out, (float)p.revpart, (float)p.VRF, (float)p.frf, (float)p.V0, itt, false, nullptr);
}
static const char* MN[] = {"linear", "sinusoidal"};

static void part_zero(const std::vector<unsigned>& ns) {
    for (unsigned n : ns) for (unsigned it = 1; it <= 4; it++) for (int model = 0; model < 2; model++) for (int var = 0; var < 3; var++) for (unsigned steps : {1u, 5u}) for (int fq = 0; fq < 2; fq++) {
        Par q{n, it, model, var};
        std::string kase = mcx::Desc()("part", "zero")("model", MN[model])("n", n)("it", it)("var", var)("steps", steps)("modfreq", fq).str();
        if (!R.mine(kase)) continue;
        if (R.out_of_time()) { R.not_completed = kase; return; }
        set_size(n, 1);
        auto d = blob(n);
        auto in = mkps_shift(n, 12, var == 1 ? 2 : 0, 0, {1.f}, d.data()), out = mkps_shift(n, 12, var == 1 ? 2 : 0, 0, {1.f});
        auto in2 = mkps_shift(n, 12, var == 1 ? 2 : 0, 0, {1.f}, d.data()), out2 = mkps_shift(n, 12, var == 1 ? 2 : 0, 0, {1.f});
        Phys p = phys(in, var);
        auto dyn = mkdyn(in, out, q, p, 0.f, 0.f, 0.f, fq ? 0.013 : 0.0, steps);   // modulation enabled in principle, all amplitudes zero
        auto sta = mkstat(in2, out2, q, p);
        const std::string key = std::string("C19/zero-amplitude/") + MN[model];
        for (unsigned k = 0; k < steps; k++) {
            dyn->apply(); sta->apply();
            R.eval(kase + " step=" + std::to_string(k), mcx::fnv(out->getData(), 4 * (size_t)n * n, mcx::fnvs(kase) + k), false);
            if (!all_finite(out->getData(), (size_t)n * n) || !all_finite(dyn->getForce(), n)) { R.violate(key + "/non-finite", kase, "step " + std::to_string(k) + ": kick or grid not finite"); break; }
            if (memcmp(dyn->getForce(), sta->getForce(), 4 * n) != 0) { char b[160]; snprintf(b, 160, "step %u: force[0] %.9g vs static %.9g", k, dyn->getForce()[0], sta->getForce()[0]); R.violate(key + "/force-differs", kase, b); break; }
            if (memcmp(out->getData(), out2->getData(), 4 * (size_t)n * n) != 0) { R.violate(key + "/grid-differs", kase, "step " + std::to_string(k)); break; }
        }
        auto rec = dyn->getPastModulation();
        if (rec.size() != steps) R.violate(key + "/record-count", kase, std::to_string(rec.size()) + " records for " + std::to_string(steps) + " steps");
    }
    R.bound_done("zero: both models x n x it x 3 parameter sets x steps{1,5} x modulation frequency{0, set}");
}

static void part_proto(const std::vector<unsigned>& ns, unsigned depth, unsigned steps) {
    for (unsigned n : ns) for (int model = 0; model < 2; model++) for (int noise = 0; noise < 5; noise++) for (int var = 0; var < 2; var++) {   // noise: 0 none, 1 phase and amplitude, 2 amplitude only, 3 phase only, 4 amplitude noise of order one (factors of either sign)
        Par q{n, 3 + (unsigned)var, model, var};
        std::string kase0 = mcx::Desc()("part", "proto")("model", MN[model])("n", n)("noise", noise)("var", var)("depth", depth)("steps", steps).str();
        if (!R.mine(kase0)) continue;
        if (R.out_of_time()) { R.not_completed = kase0; return; }
        const float modampl = 0.02f * (var + 1); const double modinc = 0.037 * (var + 1);
        const std::string key = std::string("C19/protocol/") + MN[model];
        uint64_t states = 0, transitions = 0;
        std::set<std::pair<unsigned, unsigned>> seen;   // (#applied, #unflushed)
        std::deque<std::string> frontier; frontier.push_back("");
        while (!frontier.empty()) {
            std::string hist = frontier.front(); frontier.pop_front();
            if (hist.size() >= depth) continue;
            for (char op : {'A', 'G'}) {
                std::string h2 = hist + op;
                unsigned na = 0; for (char c : h2) if (c == 'A') na++;
                if (na > steps) continue;    // main() never applies more often than the queue is long
                // replay the whole history on a fresh real object
                set_size(n, 1);
                auto d = blob(n);
                auto in = mkps_shift(n, 12, 0, 0, {1.f}, d.data()), out = mkps_shift(n, 12, 0, 0, {1.f});
                auto in2 = mkps_shift(n, 12, 0, 0, {1.f}, d.data()), out2 = mkps_shift(n, 12, 0, 0, {1.f});
                Phys p = phys(in, var);
                auto dyn = mkdyn(in, out, q, p, (noise == 1 || noise == 3) ? 0.004f : 0.f, noise == 4 ? 0.15f : (noise == 1 || noise == 2) ? 0.02f : 0.f, (noise == 2 && var == 1) ? 0.f : modampl, modinc, steps);
                auto sta = mkstat(in2, out2, q, p);
                std::vector<std::array<float, 2>> queue; { auto cp = dyn->_next_modulation; while (!cp.empty()) { queue.push_back(cp.front()); cp.pop(); } }
                if (noise == 4) for (auto& e : queue) if (e[1] < 0) R.addnum("sum_queue_entries_with_negative_amplitude", 1);
                if (queue.size() != steps) { R.violate(key + "/queue-length", kase0, std::to_string(queue.size()) + " entries for " + std::to_string(steps) + " steps"); continue; }
                unsigned applied = 0, flushed = 0; bool ok = true;
                for (char c : h2) {
                    if (c == 'A') {
                        dyn->apply();
                        static_cast<RFKickMap&>(*sta)._calcKick(queue[applied][0], queue[applied][1]); sta->KickMap::apply();
                        if (memcmp(dyn->getForce(), sta->getForce(), 4 * n) != 0 || memcmp(out->getData(), out2->getData(), 4 * (size_t)n * n) != 0) {
                            R.violate(key + "/kick-is-not-entry-k", kase0, "history " + h2 + ": the kick of apply #" + std::to_string(applied) + " is not the one of queue entry " + std::to_string(applied)); ok = false; break; }
                        {   // independent of RFKickMap::_calcKick: the force in force is the documented function of record k (single-precision tolerance) ...
                            const double ph = queue[applied][0], am = queue[applied][1]; double worst = 0, mag = 0; std::vector<double> want(n);
                            for (unsigned x = 0; x < n; x++) {
                                if (model == 0) want[x] = (std::tan((double)dyn->_angle) * ((double)in->getAxis(0)->zerobin() - x) + std::tan((double)dyn->_angle) * ((double)dyn->_syncphase - ph) / dyn->_bl2phase / in->getAxis(0)->delta()) * am;
                                else want[x] = dyn->_revolutionpart * (-am * dyn->_V_RF * std::sin(in->getAxis(0)->at(x) * dyn->_bl2phase + ph) + dyn->_V0) / in->getAxis(1)->delta() / in->getAxis(1)->scale("ElectronVolt");
                                mag = std::max(mag, std::fabs(want[x]));
                            }
                            for (unsigned x = 0; x < n; x++) worst = std::max(worst, std::fabs(want[x] - (double)dyn->getForce()[x]));
                            if (!(worst <= 2e-5 * mag + 1e-6)) { char b[200]; snprintf(b, 200, "history %s: force of apply #%u deviates from the kick of record %u (phase %.9g, amplitude %.9g) by %.3g (max |force| %.3g)", h2.c_str(), applied, applied, ph, am, worst, mag);
                                R.violate(key + "/force-is-not-the-function-of-record-k", kase0, b); ok = false; break; }
                            // ... and the grid is moved by exactly that force (fresh generic kick map given the force held)
                            auto in3 = mkps_shift(n, 12, 0, 0, {1.f}, d.data()), out3 = mkps_shift(n, 12, 0, 0, {1.f});
                            KickMap fresh(in3, out3, (SourceMap::InterpolationType)q.it, false, KickMap::Axis::y, nullptr);
                            std::vector<float> off(dyn->getForce(), dyn->getForce() + n); fresh.swapOffset(off); fresh.apply();
                            if (memcmp(out3->getData(), out->getData(), 4 * (size_t)n * n) != 0) { R.violate(key + "/grid-not-moved-by-the-force-held", kase0, "history " + h2 + ": apply #" + std::to_string(applied)); ok = false; break; }
                        }
                        applied++;
                    } else {
                        auto rec = dyn->getPastModulation();
                        bool same = rec.size() == applied - flushed;
                        for (size_t i = 0; same && i < rec.size(); i++) same = memcmp(rec[i].data(), queue[flushed + i].data(), 8) == 0;
                        if (!same) { R.violate(key + "/records-lost-or-duplicated", kase0, "history " + h2 + ": flush returned " + std::to_string(rec.size()) + " records, expected entries " + std::to_string(flushed) + ".." + std::to_string(applied)); ok = false; break; }
                        flushed = applied;
                    }
                }
                transitions++;
                R.eval(kase0 + " history=" + h2, mcx::fnvs(kase0 + h2), false);
                if (!ok) continue;
                { auto rest = dyn->getPastModulation(); if (rest.size() != applied - flushed) R.violate(key + "/records-lost-or-duplicated", kase0, "history " + h2 + " + final flush: " + std::to_string(rest.size()) + " records, expected " + std::to_string(applied - flushed)); }
                if (!noise) {   // pure sinusoidal modulation: configured amplitude and frequency
                    const float sync = dyn->_syncphase;
                    for (unsigned k = 0; k < steps; k++) {
                        const double want = (double)modampl * std::sin(2 * M_PI * modinc * k);
                        if (std::fabs((double)queue[k][0] - sync - want) > 2e-6 + 1e-5 * modampl || queue[k][1] != 1.f) { char b[160]; snprintf(b, 160, "entry %u: phase-sync = %.9g expected %.9g, amplitude %.9g", k, queue[k][0] - sync, want, queue[k][1]); R.violate(key + "/modulation-waveform", kase0, b); break; }
                    }
                }
                if (seen.insert({applied, applied - flushed}).second) states++;
                frontier.push_back(h2);   // exhaustive over sequences (no merging): every sequence up to the depth is executed
            }
        }
        R.addnum("states", (double)states); R.addnum("transitions", (double)transitions);
    }
    R.bound_done("proto: both models x n x noise{off, phase+amplitude, amplitude only, phase only, amplitude noise of order one} x 2 modulations (one without any phase modulation) x every {apply, flush} sequence up to depth " + std::to_string(depth) + " (queue length " + std::to_string(steps) + ")");
}

// long runs: the recorded waveform keeps the configured frequency (bound: single-precision rounding of the sine's argument)
static void part_wave(unsigned steps) {
    for (int model = 0; model < 2; model++) for (int v = 0; v < 5; v++) {
        Par q{8, 4, model, 0};
        if (v >= 3 && steps > 300000) continue;
        std::string kase = mcx::Desc()("part", "wave")("model", MN[model])("steps", steps)("v", v).str();
        if (!R.mine(kase)) continue;
        set_size(8, 1);
        auto in = mkps_shift(8, 12, 0, 0, {1.f}), out = mkps_shift(8, 12, 0, 0, {1.f});
        Phys p = phys(in, 0);
        // v = 3, 4: amplitudes of 170 and 270 degrees (beyond half an RF period)
        const float modampl = v == 3 ? 2.9670597f : v == 4 ? 4.712389f : 0.0174533f; const double modinc = v == 0 ? 0.000888 : v == 1 ? 0.0123457 : v == 2 ? 0.21 : 0.0123457;
        auto dyn = mkdyn(in, out, q, p, 0.f, 0.f, modampl, modinc, steps);
        auto cp = dyn->_next_modulation; const float sync = dyn->_syncphase; unsigned k = 0; double worst = 0;
        R.eval(kase, mcx::fnvs(kase), false);
        if (cp.size() != steps) { R.violate(std::string("C19/waveform/") + MN[model] + "/queue-length", kase, std::to_string(cp.size())); continue; }
        while (!cp.empty()) {
            const double arg = 2 * M_PI * modinc * k, want = (double)modampl * std::sin(arg), got = (double)cp.front()[0] - sync;
            const double tol = modampl * (8 * EPS * (arg + 1)) + 4e-7;
            worst = std::max(worst, std::fabs(got - want) / tol);
            if (std::fabs(got - want) > tol || cp.front()[1] != 1.f) { char b[200]; snprintf(b, 200, "entry %u: phase-sync = %.9g, configured sine %.9g (argument %.6g rad), amplitude %.9g", k, got, want, arg, cp.front()[1]); R.violate(std::string("C19/waveform/") + MN[model] + "/frequency-or-amplitude", kase, b); break; }
            cp.pop(); k++;
        }
        R.maxnum("worst_waveform_error_over_tol", worst);
    }
    R.bound_done("wave: both models x {3 modulation frequencies at 1 degree, 170 and 270 degrees} x " + std::to_string(steps) + " steps, every queue entry against the configured sine");
}

// part=long : runs of a hundred thousand steps and more on one map, the records collected every 1000 steps, every 70000 steps, or only once at the end (output cadence 0 / larger
//             than the run): every collection returns exactly the entries consumed since the last one, in order
static void part_long(unsigned steps) {
    for (int model = 0; model < 2; model++) for (unsigned every : {1000u, 70000u, 0u}) for (int noise = 0; noise < 2; noise++) {
        Par q{8, 4, model, 0};
        std::string kase = mcx::Desc()("part", "long")("model", MN[model])("steps", steps)("collect-every", every)("noise", noise).str();
        if (!R.mine(kase)) continue;
        if (R.out_of_time()) { R.not_completed = kase; return; }
        set_size(8, 1);
        auto in = mkps_shift(8, 12, 0, 0, {1.f}), out = mkps_shift(8, 12, 0, 0, {1.f});
        Phys p = phys(in, 0);
        auto dyn = mkdyn(in, out, q, p, noise ? 0.002f : 0.f, noise ? 0.01f : 0.f, 0.0174533f, 0.000888, steps);
        std::vector<std::array<float, 2>> queue; { auto cp = dyn->_next_modulation; while (!cp.empty()) { queue.push_back({cp.front()[0], cp.front()[1]}); cp.pop(); } }
        R.eval(kase, mcx::fnvs(kase), false);
        const std::string key = std::string("C19/long-run/") + MN[model];
        if (queue.size() != steps) { R.violate(key + "/queue-length", kase, std::to_string(queue.size())); continue; }
        unsigned flushed = 0; bool ok = true;
        for (unsigned k = 0; k < steps && ok; k++) {
            dyn->apply();
            if ((every && (k + 1) % every == 0) || k + 1 == steps) {
                auto rec = dyn->getPastModulation();
                bool same = rec.size() == k + 1 - flushed;
                for (size_t i = 0; same && i < rec.size(); i++) same = memcmp(rec[i].data(), queue[flushed + i].data(), 8) == 0;
                if (!same) { R.violate(key + "/records-lost-or-duplicated", kase, "collection after step " + std::to_string(k + 1) + " returned " + std::to_string(rec.size()) + " records, expected entries " + std::to_string(flushed) + ".." + std::to_string(k + 1)); ok = false; }
                flushed = k + 1;
            }
        }
    }
    R.bound_done("long: both models x {modulation, modulation + noise} x " + std::to_string(steps) + " steps x collection every {1000, 70000, only at the end}");
}

int main(int argc, char** argv) {
    R.init(argc, argv, "C19", "C19_dynrf"); quiet();
    R.rule = "zero: one evaluation = one step of dynamic vs static map; proto: one evaluation = one call sequence replayed on a fresh real DynamicRFKickMap; distinct = FNV of case (+history/output)";
    R.sample_every = 400;
    const bool T = true /* the wide lattices run in both tiers */; const bool D = R.thorough(); (void)D;
    part_zero(T ? std::vector<unsigned>{8, 16, 17, 32, 33} : std::vector<unsigned>{8, 9});
    part_proto(T ? std::vector<unsigned>{8, 16, 17} : std::vector<unsigned>{8, 9}, D ? 14 : 12, D ? 10 : 8);
    part_wave(D ? 3000000 : 300000);
    part_long(D ? 600000 : 150000);
    return R.finish();
}
