// C08: in a multi-bunch application every bunch is transformed exactly as it would be on its own.
// Differential oracle without hand-written expectations: slice b of the nb-bunch result must be bit-identical to
// the result of the same map class built for ONE bunch with bunch b's data (and bunch b's displacement field).
#include "inov.hpp"
using namespace inov;
static mcx::Report R;

static std::vector<float> bunch_data(unsigned n, unsigned b, int variant) {
    std::vector<float> d((size_t)n * n);
    const float cx = n / 2.f + (b % 2 ? 1.3f : -0.8f) * (1 + b), cy = n / 2.f + (b % 3 - 1) * 1.1f, s = 2.0f + 0.7f * b;
    for (unsigned x = 0; x < n; x++) for (unsigned y = 0; y < n; y++) {
        float v = std::exp(-((x - cx) * (x - cx) + (y - cy) * (y - cy)) / (2 * s));
        if (variant == 1) v = std::sin(0.9f * x + 0.37f * y * (b + 1) + b) * 0.5f + ((x * 7 + y * 3 + b) % 5 == 0 ? 1.f : 0.f);
        d[(size_t)x * n + y] = v;
    }
    return d;
}

static std::vector<float> all_data_of(const std::vector<std::vector<float>>& data, unsigned nb) { std::vector<float> all; for (unsigned b = 0; b < nb; b++) all.insert(all.end(), data[b].begin(), data[b].end()); return all; }

enum Kind { KICKY, KICKX, RFLIN, RFSIN, DRIFT, FP3, FP4, IDENT, WAKE, DYNLIN, DYNSIN, NKIND };
static const char* KN[] = {"KickMap.y", "KickMap.x", "RFKickMap.linear", "RFKickMap.sin", "DriftMap", "FokkerPlanck.3", "FokkerPlanck.4", "Identity", "WakePotentialMap", "DynamicRF.linear", "DynamicRF.sin"};

static bool CLAMP = false;  // the 'clamped interpolation' flag handed to every map constructor (both sides of the comparison get the same)
static bool HIST = false;   // generic kick maps of the multi-bunch side are given two other fields before the one under test
static int FPT = 3;   // Fokker-Planck variant (0 none, 1 damping only, 2 diffusion only, 3 full) for the FP kinds
struct Built { std::shared_ptr<SourceMap> m; psptr in, out; std::shared_ptr<ElectricField> f; std::shared_ptr<Impedance> z; };

// build a map of the given kind for the CURRENT static size; fields[b] = displacement field of bunch b (kick kinds)
static Built build(int kind, unsigned n, unsigned nb, unsigned it, int var, const std::vector<std::vector<float>>& data,
                   const std::vector<std::vector<float>>& fields, const std::vector<uint32_t>& buckets, unsigned N, unsigned spacing) {
    Built B;
    std::vector<float> all; for (unsigned b = 0; b < nb; b++) all.insert(all.end(), data[b].begin(), data[b].end());
    const float sx = var == 1 ? 2 : 0, sy = var == 1 ? -1 : 0;
    B.in = mkps_shift(n, 12, sx, sy, even_filling(nb), all.data());
    B.out = mkps_shift(n, 12, sx, sy, even_filling(nb));
    auto itt = (SourceMap::InterpolationType)it;
    const float angle = 2 * M_PI / (var == 2 ? 24 : 60);
    switch (kind) {
    case KICKY: case KICKX: {
        auto km = std::make_shared<KickMap>(B.in, B.out, itt, CLAMP, kind == KICKY ? KickMap::Axis::y : KickMap::Axis::x, nullptr);
        std::vector<float> off; for (unsigned b = 0; b < nb; b++) off.insert(off.end(), fields[b].begin(), fields[b].end());
        if (HIST && nb > 1) {
            // the map has a past: another full per-bunch field, then a field of one block only (serving the first bunch; what that does to the others is
            // the caller's business), then the field under test - each bunch is still moved by its own field and by nothing else
            std::vector<float> other(off.rbegin(), off.rend()); km->swapOffset(other); km->apply();
            std::vector<float> one(fields[0]); if (kind == KICKY) { km->swapOffset(one); km->apply(); }
        }
        km->swapOffset(off); B.m = km; break; }
    case RFLIN: B.m = std::make_shared<RFKickMap>(B.in, B.out, angle, 5e8f, itt, CLAMP, nullptr); break;
    case RFSIN: {
        const double frf = 5e8, bl2phase = 1e-3 / physcons::c * frf * 2 * M_PI, dE = B.in->getDelta(1) * 6.1e5, revpart = 0.01;
        const double Veff = std::tan(angle) * dE / (B.in->getDelta(0) * revpart * bl2phase), V0 = 0.1 * Veff, VRF = std::sqrt(Veff * Veff + V0 * V0);
        B.m = std::make_shared<RFKickMap>(B.in, B.out, (float)revpart, (float)VRF, (float)frf, (float)V0, itt, CLAMP, nullptr); break; }
    case DRIFT: {
        std::vector<float> slip = {angle, var == 1 ? 0.3f * angle : 0.f, var == 2 ? -0.2f * angle : 0.f};
        B.m = with_scratch(slip, [&](const std::vector<float>& sl) { return std::make_shared<DriftMap>(B.in, B.out, sl, 1.3e9f, itt, CLAMP, nullptr); }); break; }
    case FP3: case FP4:
        B.m = std::make_shared<FokkerPlanckMap>(B.in, B.out, n, n, (FokkerPlanckMap::FPType)FPT, FokkerPlanckMap::FPTracking::none,
                                                var == 2 ? 1e-2 : 1e-3, kind == FP3 ? FokkerPlanckMap::DerivationType::two_sided : FokkerPlanckMap::DerivationType::cubic, nullptr);
        break;
    case IDENT: B.m = std::make_shared<Identity>(B.in, B.out, nullptr); break;
    case DYNLIN: case DYNSIN: {   // phase modulation only (deterministic queue): second entry in force after two applies
        const double frf = 5e8, bl2phase = 1e-3 / physcons::c * frf * 2 * M_PI, dE = B.in->getDelta(1) * 6.1e5, revpart = 0.01;
        const double Veff = std::tan(angle) * dE / (B.in->getDelta(0) * revpart * bl2phase), V0 = 0.1 * Veff, VRF = std::sqrt(Veff * Veff + V0 * V0);
        std::shared_ptr<DynamicRFKickMap> d;
        if (kind == DYNLIN) d = std::make_shared<DynamicRFKickMap>(B.in, B.out, n, n, angle, revpart, frf, 0.f, 0.f, 0.02f, 0.13, 3, itt, CLAMP, nullptr);
        else d = std::make_shared<DynamicRFKickMap>(B.in, B.out, n, n, revpart, VRF, frf, V0, 0.f, 0.f, 0.02f, 0.13, 3, itt, CLAMP, nullptr);
        d->apply();   // entry 0 (zero modulation); the caller's apply() runs with entry 1
        B.m = d; break; }
    case WAKE: {
        B.z = std::make_shared<ConstImpedance>(N, 1e12f, impedance_t(200.f, var == 1 ? 90.f : 0.f));
        B.f = std::make_shared<ElectricField>(B.in, B.z, buckets, spacing, nullptr, 9e6, 0.01f, 3e-3, 1.3e9, 4.7e-4, 4e-8);
        auto wm = std::make_shared<WakePotentialMap>(B.in, B.out, B.f.get(), itt, CLAMP, nullptr);
        wm->update(); B.m = wm; break; }
    }
    return B;
}

int main(int argc, char** argv) {
    R.init(argc, argv, "C08", "C08_bunches"); quiet();
    R.rule = "one evaluation = one (map class, n, nb, it, parameter variant, data variant) multi-bunch application compared slice by slice with single-bunch applications; "
             "distinct = FNV of case + multi-bunch output; trivial = Identity";
    R.sample_every = 50;
    const bool T = true /* the wide lattices run in both tiers */; const bool D = R.thorough(); (void)D;
    std::vector<unsigned> ns = T ? std::vector<unsigned>{8, 12, 13, 16, 24} : std::vector<unsigned>{8, 9};
    std::vector<unsigned> nbs = T ? std::vector<unsigned>{2, 3, 4} : std::vector<unsigned>{2};
    if (D) { ns.push_back(32); ns.push_back(33); nbs.push_back(5); nbs.push_back(6); }
    nbs.push_back(260); if (D) nbs.push_back(515);      // long trains (bunch numbers beyond 8 and 9 bits), on the smallest grid only
    for (unsigned n : ns) for (unsigned nb : nbs) for (int kind = 0; kind < NKIND; kind++) for (unsigned it = 1; it <= 4; it++)
    for (int var = 0; var < 4; var++) for (int dv = 0; dv < 3; dv++) {     // dv 2: the bunches after the first hold bit-identical data (which differs from the first bunch's)
        // var 3: rows of one bunch displaced beyond the grid (y-kick fields); for the Fokker-Planck kinds var selects the variant {none, damping, diffusion, full}
        if (var == 3 && kind != KICKY && kind != FP3 && kind != FP4) continue;
        if (nb > 100 && (n != 8 || (it != 1 && it != 4) || dv == 1)) continue;
        FPT = var;
        CLAMP = ((n + nb + it + var + dv + kind) % 2) == 1;
        if ((kind == FP3 || kind == FP4 || kind == IDENT) && it > 1) continue;   // interpolation order is not a parameter of these
        std::string kase = mcx::Desc()("map", KN[kind])("n", n)("nb", nb)("it", it)("var", var)("data", dv).str();
        if (!R.mine(kase)) continue;
        if (R.out_of_time()) { R.not_completed = kase; break; }
        auto A = alphabet(n);
        std::vector<std::vector<float>> data(nb), fields(nb);
        for (unsigned b = 0; b < nb; b++) {
            data[b] = dv == 2 ? bunch_data(n, b ? 1 : 0, 0) : bunch_data(n, b, dv);
            fields[b].resize(n);
            // x-kicks share one field by design (the drift is the same for all bunches); y-kicks get a different field per bunch
            for (unsigned r = 0; r < n; r++) fields[b][r] = A[(r * 3 + var * 5 + (kind == KICKY ? b * 11 : 0)) % A.size()];
            // kicks beyond the grid (the whole row flows out) in one bunch must not leak into another bunch's table
            if (var == 3) { const float big[4] = {(float)(n / 2), n / 2 + 0.5f, (float)n, 3.f * n}; for (unsigned r = b; r < n; r += 3) fields[b][r] = big[(r + b) % 4]; }
        }
        std::vector<uint32_t> buckets; for (unsigned b = 0; b < nb; b++) buckets.push_back((nb - 1 - b) * (var == 2 ? 2 : 1));
        const unsigned spacing = n + 3;
        unsigned need = 0; for (auto bk : buckets) need = std::max(need, bk * spacing + n);
        // padded length: power of two / composite / odd, always long enough for the whole train
        const unsigned N = (var % 3 == 0 ? 64 : var % 3 == 1 ? 60 : 111) + (need > 60 ? 2 * ((need - 59) / 2 + 1) : 0);
        set_size(n, nb);
        std::vector<float> multi, wake_multi;
        {
            HIST = (dv == 1);
            if (dv == 2 && kind == KICKY) for (unsigned b = 2; b < nb; b++) fields[b] = fields[1];     // ... and the same field
            Built B = build(kind, n, nb, it, var % 3, data, fields, buckets, N, spacing);
            HIST = false;
            B.m->apply();
            multi.assign(B.out->getData(), B.out->getData() + (size_t)n * n * nb);
            if (kind == WAKE) {
                auto* km = static_cast<KickMap*>(B.m.get());
                // history: the profiles change a little from step to step (as in a run with many steps per period); after every update the
                // kick applied must be the kick of the potential the map holds NOW - compared with a fresh generic map given that field
                auto* wm = static_cast<WakePotentialMap*>(B.m.get());
                for (int round = 0; round < 6; round++) {
                    auto pr = B.in->getProjection(0);
                    for (unsigned b = 0; b < nb; b++) { boost::multi_array<projection_t, 1> a(boost::extents[n]); for (unsigned x = 0; x < n; x++) a[x] = pr[b][x] * (1.f + 2e-6f * (round + 1)) + 1e-7f * ((x + round) % 3); B.in->setProjection(0, b, a); }
                    wm->update(); wm->apply();
                    auto in2 = mkps_shift(n, 12, var % 3 == 1 ? 2 : 0, var % 3 == 1 ? -1 : 0, even_filling(nb), all_data_of(data, nb).data()), out2 = mkps_shift(n, 12, var % 3 == 1 ? 2 : 0, var % 3 == 1 ? -1 : 0, even_filling(nb));
                    KickMap fresh(in2, out2, (SourceMap::InterpolationType)it, false, KickMap::Axis::y, nullptr);
                    std::vector<float> off(km->getForce(), km->getForce() + n * nb); fresh.swapOffset(off); fresh.apply();
                    if (memcmp(out2->getData(), B.out->getData(), 4 * (size_t)n * n * nb) != 0) {
                        R.violate("C08/WakePotentialMap/kick-applied-is-not-the-potential-held", kase, "after " + std::to_string(round + 1) + " small profile changes the applied kick differs from a fresh map built from getForce()"); break; }
                }
                wm->update(); wm->apply();
                multi.assign(B.out->getData(), B.out->getData() + (size_t)n * n * nb);
                wake_multi.assign(km->getForce(), km->getForce() + n * nb);
                const auto& wp = B.f->getWakePotentials();
                for (unsigned b = 0; b < nb; b++) for (unsigned x = 0; x < n; x++)
                    if (wake_multi[b * n + x] != wp[b][x]) { R.violate("C08/WakePotentialMap/field-is-not-own-wake", kase, "bunch " + std::to_string(b) + " cell " + std::to_string(x)); b = nb; break; }
            }
        }
        R.eval(kase, mcx::fnv(multi.data(), multi.size() * 4, mcx::fnvs(kase)), kind == IDENT);
        bool fin = all_finite(multi.data(), multi.size());
        if (!fin) R.violate(std::string("C08/") + KN[kind] + "/non-finite", kase, "multi-bunch output not finite");
        set_size(n, 1);
        for (unsigned b = 0; b < nb && fin; b++) {
            std::vector<std::vector<float>> d1 = {data[b]}, f1 = {fields[b]};
            int k1 = kind;
            if (kind == WAKE) { k1 = KICKY; f1[0].assign(wake_multi.begin() + b * n, wake_multi.begin() + (b + 1) * n); }
            Built S = build(k1, n, 1, it, var % 3, d1, f1, {0}, N, 0);
            S.m->apply();
            const float* o = S.out->getData(); const float* mo = multi.data() + (size_t)b * n * n;
            double maxd = 0; size_t nd = 0;
            for (size_t i = 0; i < (size_t)n * n; i++) if (memcmp(&o[i], &mo[i], 4) != 0 && !(o[i] == mo[i])) { nd++; maxd = std::max(maxd, (double)std::fabs(o[i] - mo[i])); }
            if (nd) {
                char dd[200]; snprintf(dd, 200, "bunch %u of %u: %zu cells differ from the single-bunch result, max |diff| = %.6g", b, nb, nd, maxd);
                R.violate(std::string("C08/") + KN[kind] + (it > 1 ? "/it>1" : "/it=1") + "/slice-differs", kase, dd);
                R.maxnum("worst_slice_difference", maxd);
            }
        }
    }
    R.bound_done(std::string("map classes x n x nb x it x 3 parameter variants (+ off-grid rows for y-kicks; all 4 Fokker-Planck variants) x 3 data variants (one with identical bunches behind a different first one), ") + (T ? "n{8,12,13,16,24} nb{2,3,4} + trains of 260 (515) bunches on 8 cells" : "n{8,9} nb{2}"));
    return R.finish();
}
