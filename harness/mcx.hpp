// mcx.hpp - tiny support library for the bounded-exhaustive explorers (Engine A).
//  * Report: counts evaluations, distinct non-trivial cases (by canonical hash), keeps samples,
//    groups violations by finding key, writes one JSON document per shard.
//  * Case sharding: harnesses enumerate a deterministic sequence of cases; shard i of k runs the cases
//    with (index % k == i).  --case "<descriptor>" re-runs exactly one case (replay).
//  * helpers: FNV-1a hashing of buffers, odometer over cartesian products, bounded sequences.
#pragma once
#include <cstdint>
#include <cstdio>
#include <cstdlib>
#include <cstring>
#include <chrono>
#include <cmath>
#include <map>
#include <set>
#include <sstream>
#include <string>
#include <unordered_set>
#include <vector>
#include <functional>

namespace mcx {

inline uint64_t fnv(const void* p, size_t n, uint64_t h = 1469598103934665603ULL) {
    const unsigned char* c = static_cast<const unsigned char*>(p);
    for (size_t i = 0; i < n; i++) { h ^= c[i]; h *= 1099511628211ULL; }
    return h;
}
template <typename T> inline uint64_t fnvv(const std::vector<T>& v, uint64_t h = 1469598103934665603ULL) {
    return v.empty() ? fnv("", 0, h) : fnv(v.data(), v.size() * sizeof(T), h);
}
inline uint64_t fnvs(const std::string& s, uint64_t h = 1469598103934665603ULL) { return fnv(s.data(), s.size(), h); }

inline std::string jesc(const std::string& s) {
    std::string o;
    for (char c : s) {
        if (c == '"' || c == '\\') { o += '\\'; o += c; }
        else if (c == '\n') o += "\\n";
        else if ((unsigned char)c < 0x20) { char b[8]; snprintf(b, 8, "\\u%04x", c); o += b; }
        else o += c;
    }
    return o;
}

struct Violation { std::string key, kase, detail; uint64_t count = 0; };

struct Report {
    std::string property, harness, tier, rule;
    uint64_t evaluations = 0;
    uint64_t trivial = 0;
    std::unordered_set<uint64_t> distinct;
    std::vector<std::string> samples;          // case descriptors
    std::map<std::string, Violation> violations;  // by finding key
    std::map<std::string, double> numbers;     // extra coverage numbers (max residuals, states, transitions ...)
    std::map<std::string, std::string> texts;
    std::vector<std::string> bounds_done;      // completed bounds
    bool exhaustive = true;
    std::string not_completed;
    std::chrono::steady_clock::time_point t0 = std::chrono::steady_clock::now();
    double deadline_s = 1e30;
    int shard = 0, nshards = 1;
    uint64_t block = 1;      // cases are dealt to the shards in blocks of this many consecutive cases (1: round robin)
    std::string only_case;   // replay mode
    uint64_t index = 0;      // running case index used for sharding
    uint64_t sample_every = 1000;
    bool verbose = false;
    bool warm = false;       // warm-up mode: only create FFTW wisdom for every transform length, check nothing

    void init(int argc, char** argv, const char* prop, const char* harn) {
        property = prop; harness = harn; tier = "quick";
        for (int i = 1; i < argc; i++) {
            std::string a = argv[i];
            if (a == "--tier" && i + 1 < argc) tier = argv[++i];
            else if (a == "--shard" && i + 1 < argc) { sscanf(argv[++i], "%d/%d", &shard, &nshards); }
            else if (a == "--block" && i + 1 < argc) { block = strtoull(argv[++i], nullptr, 10); if (!block) block = 1; }
            else if (a == "--case" && i + 1 < argc) { only_case = argv[++i]; verbose = true; }
            else if (a == "--out" && i + 1 < argc) out = argv[++i];
            else if (a == "--deadline" && i + 1 < argc) deadline_s = atof(argv[++i]);
            else if (a == "-v") verbose = true;
            else if (a == "--warm") warm = true;
        }
    }
    bool thorough() const { return tier == "thorough"; }
    double elapsed() const { return std::chrono::duration<double>(std::chrono::steady_clock::now() - t0).count(); }
    bool out_of_time() {
        if (elapsed() > deadline_s) { exhaustive = false; return true; }
        return false;
    }
    // Should the case with this descriptor run in this process?  (advances the case index)
    bool mine(const std::string& kase) {
        if (!only_case.empty()) return kase == only_case;
        uint64_t i = index++;
        return (int)((i / block) % (uint64_t)nshards) == shard;
    }
    // record one evaluated case. h = canonical hash of input+observation; trivial per the harness' rule
    void eval(const std::string& kase, uint64_t h, bool is_trivial) {
        evaluations++;
        if (is_trivial) trivial++; else distinct.insert(h);
        if (samples.size() < 3 || (evaluations % sample_every == 0 && samples.size() < 40)) samples.push_back(kase);
        last_case = kase;
    }
    void violate(const std::string& key, const std::string& kase, const std::string& detail) {
        Violation& v = violations[key];
        if (v.count == 0) { v.key = key; v.kase = kase; v.detail = detail; }
        v.count++;
        if (verbose) fprintf(stderr, "VIOLATION key=%s case=%s :: %s\n", key.c_str(), kase.c_str(), detail.c_str());
    }
    void bound_done(const std::string& b) { bounds_done.push_back(b); }
    void maxnum(const std::string& k, double v) { auto it = numbers.find(k); if (it == numbers.end() || v > it->second) numbers[k] = v; }
    void addnum(const std::string& k, double v) { numbers[k] += v; }

    std::string out, last_case;
    int finish() {
        if (samples.empty() || samples.back() != last_case) if (!last_case.empty()) samples.push_back(last_case);
        FILE* f = out.empty() ? stdout : fopen(out.c_str(), "w");
        if (!f) { perror("out"); return 3; }
        fprintf(f, "{\"property\":\"%s\",\"harness\":\"%s\",\"tier\":\"%s\",\"shard\":%d,\"nshards\":%d,\"block\":%llu,\n", property.c_str(),
                harness.c_str(), tier.c_str(), shard, nshards, (unsigned long long)block);
        fprintf(f, "\"evaluations\":%llu,\"trivial\":%llu,\"distinct_nontrivial\":%llu,\"exhaustive\":%s,\n",
                (unsigned long long)evaluations, (unsigned long long)trivial, (unsigned long long)distinct.size(),
                exhaustive ? "true" : "false");
        fprintf(f, "\"rule\":\"%s\",\"not_completed\":\"%s\",\"wall_s\":%.3f,\n", jesc(rule).c_str(), jesc(not_completed).c_str(), elapsed());
        fprintf(f, "\"samples\":[");
        for (size_t i = 0; i < samples.size(); i++) fprintf(f, "%s\"%s\"", i ? "," : "", jesc(samples[i]).c_str());
        fprintf(f, "],\n\"bounds_done\":[");
        for (size_t i = 0; i < bounds_done.size(); i++) fprintf(f, "%s\"%s\"", i ? "," : "", jesc(bounds_done[i]).c_str());
        fprintf(f, "],\n\"numbers\":{");
        { bool first = true; for (auto& kv : numbers) { fprintf(f, "%s\"%s\":%.9g", first ? "" : ",", jesc(kv.first).c_str(), std::isfinite(kv.second) ? kv.second : -1.0); first = false; } }
        fprintf(f, "},\n\"texts\":{");
        { bool first = true; for (auto& kv : texts) { fprintf(f, "%s\"%s\":\"%s\"", first ? "" : ",", jesc(kv.first).c_str(), jesc(kv.second).c_str()); first = false; } }
        fprintf(f, "},\n\"violations\":[");
        { bool first = true; for (auto& kv : violations) { const Violation& v = kv.second;
            fprintf(f, "%s{\"key\":\"%s\",\"case\":\"%s\",\"detail\":\"%s\",\"count\":%llu}", first ? "" : ",\n", jesc(v.key).c_str(),
                    jesc(v.kase).c_str(), jesc(v.detail).c_str(), (unsigned long long)v.count); first = false; } }
        fprintf(f, "]}\n");
        if (f != stdout) fclose(f);
        if (!out.empty()) {   // hash set for cross-shard union
            std::string hp = out + ".hashes"; FILE* g = fopen(hp.c_str(), "wb");
            if (g) { size_t k = 0; for (uint64_t h : distinct) { if (k++ > 4000000) break; fwrite(&h, 8, 1, g); } fclose(g); }
        }
        return 0;
    }
};

// key=value descriptor helpers ------------------------------------------------------------------
struct Desc {
    std::ostringstream s; bool first = true;
    template <typename T> Desc& operator()(const char* k, const T& v) { if (!first) s << ' '; first = false; s << k << '=' << v; return *this; }
    Desc& f(const char* k, double v) { char b[40]; snprintf(b, 40, "%.9g", v); return (*this)(k, b); }
    std::string str() const { return s.str(); }
};
inline std::map<std::string, std::string> parse_desc(const std::string& d) {
    std::map<std::string, std::string> m; std::istringstream is(d); std::string tok;
    while (is >> tok) { auto p = tok.find('='); if (p != std::string::npos) m[tok.substr(0, p)] = tok.substr(p + 1); }
    return m;
}

// odometer over a cartesian product of radices ---------------------------------------------------
struct Odometer {
    std::vector<int> radix, v; bool done = false;
    explicit Odometer(std::vector<int> r) : radix(std::move(r)), v(radix.size(), 0) { for (int x : radix) if (x <= 0) done = true; }
    bool next() { for (size_t i = v.size(); i-- > 0;) { if (++v[i] < radix[i]) return true; v[i] = 0; } done = true; return false; }
    int operator[](size_t i) const { return v[i]; }
};

inline std::string fstr(double v) { char b[40]; snprintf(b, 40, "%.9g", v); return b; }

}  // namespace mcx
