// efield.hpp - shared helpers for the ElectricField harnesses (C06, C07, C18)
#pragma once
#include "inov.hpp"
#include <complex>
namespace ef {
using namespace inov;
typedef std::complex<double> cd;

struct Cfg { unsigned n, nb, N, spacing; std::vector<uint32_t> buckets; float pext = 6.f; /* half extent of the energy axis (position axis: 6) */ };

struct Rig {
    Cfg c; psptr ps; std::shared_ptr<Impedance> z; std::unique_ptr<ElectricField> f;
    // physical numbers handed to the constructor (the strength is a free parameter)
    double Ib = 3e-3, E0 = 1.3e9, sd = 4.7e-4, dt = 2e-9, frev = 9e6; float revpart = 0.018f;
    explicit Rig(const Cfg& cfg, bool longctor = true) : c(cfg) {
        set_size(c.n, c.nb);
        ps = mkps(-6, 6, -c.pext, c.pext, even_filling(c.nb));
        z = std::make_shared<Impedance>(std::vector<impedance_t>(c.N, impedance_t(0, 0)), 1e12f);
        f.reset(with_scratch(c.buckets, [&](const std::vector<uint32_t>& bk) { return longctor ? new ElectricField(ps, z, bk, c.spacing, nullptr, frev, revpart, Ib, E0, sd, dt)
                                                                                                  : new ElectricField(ps, z, bk, c.spacing, nullptr, frev, revpart); }));
    }
    void set_profile(unsigned b, const std::vector<float>& p) {
        boost::multi_array<projection_t, 1> a(boost::extents[c.n]);
        for (unsigned i = 0; i < c.n; i++) a[i] = p[i];
        ps->setProjection(0, b, a);
        // main() integrates the phase space at the head of every step, before the wake is computed: the grid's populations / integral then reflect the
        // profile (any value, not 1).  Every second call does the same here, the others leave the integral at what the constructor found (1) - the wake
        // and the spectrum are functions of the profile and the impedance, not of the grid's book-keeping
        if ((++nset) % 2 == 0) ps->integrate();
    }
    unsigned nset = 0;
    void set_z(const std::vector<impedance_t>& v) { z->_data = v; }
    double expected_scaling_times_N() const { return Ib * dt * physcons::c / ps->getScale(0, "Meter") / (ps->getDelta(1) * sd * E0); }
};

// double-precision reference: W_b[x]/s for padded train `train` (length N) and impedance Z, bins 0 <= k < kmax
inline std::vector<double> ref_wake(const std::vector<double>& train, const std::vector<cd>& Z, unsigned N, unsigned kmax) {
    std::vector<cd> F(kmax);
    for (unsigned k = 0; k < kmax; k++) { cd s = 0; for (unsigned j = 0; j < N; j++) if (train[j] != 0) s += train[j] * std::polar(1.0, -2 * M_PI * (double)((uint64_t)k * j % N) / N); F[k] = s; }
    std::vector<double> w(N);
    for (unsigned j = 0; j < N; j++) {
        double s = (Z[0] * F[0]).real();
        for (unsigned k = 1; k < kmax; k++) s += 2 * (Z[k] * F[k] * std::polar(1.0, 2 * M_PI * (double)((uint64_t)k * j % N) / N)).real();
        w[j] = s;
    }
    return w;
}
inline std::string bstr(const std::vector<uint32_t>& b) { std::string s; for (auto v : b) s += (s.empty() ? "" : ",") + std::to_string(v); return s; }
}  // namespace ef
