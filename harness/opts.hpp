// opts.hpp - option table and helpers shared by the ProgramOptions harnesses (C13, C20)
#pragma once
#include "inov.hpp"
#include "IO/ProgramOptions.hpp"
#include <fstream>
#include <sys/stat.h>
#include <unistd.h>

namespace op {
using namespace inov;

struct Opt { const char* name; char type; const char* def; const char* v1; const char* v2; };
// type: f float, d double, u uint32, i int32, l int64, b bool, s string, v vector<float>
// single-precision options: the second value has nine or more digits and lies where neighbouring floats share their 8-digit form ([1e6,2^20), [8,16), [0.01,2^-6), [0.1,0.125))
// def = the default printed by --help ("" = no default documented; the getter then returns the empty string / built-in)
static const Opt OPTS[] = {
    {"alpha0", 'f', "4e-3", "5e-3", "1.2345678e-3"}, {"alpha1", 'f', "0", "0.01", "-0.0123456789"}, {"alpha2", 'f', "0", "0.5", "-1.25"},
    {"SynchrotronFrequency", 'f', "0", "45000", "8123.4561"}, {"RevolutionFrequency", 'f', "9e6", "2.7e6", "1000123.45"},
    {"DampingTime", 'd', "-1", "0.001", "2.5123456789e-3"}, {"HarmonicNumber", 'f', "50", "184", "100"},
    {"InitialDistFile", 's', "", "start.h5", "other.txt"}, {"InitialDistStep", 'l', "-1", "0", "-3"}, {"InitialDistZoom", 'd', "1", "0.8", "1.3456789012"},
    {"BunchCurrent", 'v', "0.003", "1e-3", "1e-3 0 2.3456789e-3"}, {"BendingRadius", 'd', "-1", "5.559", "1.0000000001"},
    {"BeamEnergy", 'd', "1.3e9", "2.5e9", "1300000001"}, {"BeamEnergySpread", 'd', "4.7e-4", "1e-3", "4.7123456789e-4"},
    {"Impedance", 's', "", "z.dat", "dir/other.dat"}, {"VacuumGap", 'd', "0.03", "-0.03", "0.0512345678"}, {"UseCSR", 'b', "1", "0", "0"},
    {"CollimatorRadius", 'd', "0", "0.002", "0.00123456789"}, {"WallConductivity", 'd', "0", "5.8e7", "1412345.678"}, {"WallSusceptibility", 'd', "0", "-0.5", "2.0000001"},
    {"CutoffFreq", 'f', "23e9", "0", "1.2345678e10"}, {"AcceleratingVoltage", 'd', "1e6", "1.5e6", "123456.789012"}, {"LinearRF", 'b', "1", "0", "0"},
    {"RFAmplitudeSpread", 'd', "0", "1e-4", "0.00012345678901"}, {"RFPhaseSpread", 'd', "0", "0.1", "0.0123456789"},
    {"RFPhaseModAmplitude", 'd', "0", "1", "0.2345678901"}, {"RFPhaseModFrequency", 'd', "0", "4e4", "12345.678901"},
    {"cldev", 'i', "0", "1", "-1"}, {"output", 's', "", "out.h5", "dir/res.hdf5"}, {"outstep", 'u', "100", "7", "1"}, {"SavePhaseSpace", 'u', "0", "2", "4000000000"},
    {"tracking", 's', "", "t.txt", "p/q=1 b.txt"}, {"verbose", 'b', "0", "1", "1"},
    {"StepsPerTs", 'u', "1000", "64", "4001"}, {"StepsPerRevolution", 'd', "0", "0.5", "0.3141592653"}, {"padding", 'd', "8", "2", "1.5000001"}, {"RoundPadding", 'b', "1", "0", "0"},
    {"PhaseSpaceSize", 'f', "12", "10", "10.1234567"}, {"PhaseSpaceShiftX", 'f', "0", "2", "-1.2345678"}, {"PhaseSpaceShiftY", 'f', "0", "-3", "0.1123456789"},
    {"RenormalizeCharge", 'i', "0", "-1", "5"}, {"FPType", 'u', "3", "1", "0"}, {"FPTrack", 'u', "3", "0", "2"}, {"GridSize", 'u', "256", "64", "33"},
    {"rotations", 'd', "5", "1.25", "0.1234567891"}, {"derivation", 'u', "4", "3", "3"}, {"InterpolationPoints", 'u', "4", "3", "2"}, {"InterpolateClamped", 'b', "0", "1", "1"},
};
static const size_t NOPTS = sizeof(OPTS) / sizeof(OPTS[0]);
struct Alias { const char* alias; const char* canonical; };
static const Alias ALIASES[] = {{"RFVoltage", "AcceleratingVoltage"}, {"SyncFreq", "SynchrotronFrequency"}, {"steps", "StepsPerTs"}};
// one-letter command-line names (as documented by --help at the pinned commit)
struct Short { const char* sh; const char* canonical; };
static const Short SHORTS[] = {{"-o", "output"}, {"-n", "outstep"}, {"-v", "verbose"}, {"-N", "StepsPerTs"}, {"-p", "padding"}, {"-P", "PhaseSpaceSize"}, {"-s", "GridSize"},
    {"-T", "rotations"}, {"-f", "SynchrotronFrequency"}, {"-F", "RevolutionFrequency"}, {"-d", "DampingTime"}, {"-H", "HarmonicNumber"}, {"-i", "InitialDistFile"},
    {"-I", "BunchCurrent"}, {"-R", "BendingRadius"}, {"-E", "BeamEnergy"}, {"-e", "BeamEnergySpread"}, {"-Z", "Impedance"}, {"-G", "VacuumGap"}, {"-V", "AcceleratingVoltage"}};
static const char* IGNORED[] = {"HaissinskiIterations", "InitialDistParam", "RotationType", "SaveSourceMap"};

inline const Opt* find(const std::string& n) { for (auto& sh : SHORTS) if (n == sh.sh) return find(sh.canonical); for (size_t i = 0; i < NOPTS; i++) if (n == OPTS[i].name) return &OPTS[i]; return nullptr; }

inline std::string hx(double v) { char b[48]; snprintf(b, 48, "%a", v); return b; }
// exact textual image of every getter (hex floats)
inline std::map<std::string, std::string> getters(const ProgramOptions& po) {
    std::map<std::string, std::string> g;
    g["alpha0"] = hx(po.getAlpha0()); g["alpha1"] = hx(po.getAlpha1()); g["alpha2"] = hx(po.getAlpha2());
    g["SynchrotronFrequency"] = hx(po.getSyncFreq()); g["RevolutionFrequency"] = hx(po.getRevolutionFrequency()); g["DampingTime"] = hx(po.getDampingTime());
    g["HarmonicNumber"] = hx(po.getHarmonicNumber()); g["InitialDistFile"] = po.getStartDistFile(); g["InitialDistStep"] = std::to_string(po.getStartDistStep());
    g["InitialDistZoom"] = hx(po.getStartDistZoom());
    { std::string s; for (float c : po.getBunchCurrents()) s += hx(c) + " "; g["BunchCurrent"] = s; }
    g["BendingRadius"] = hx(po.getBendingRadius()); g["BeamEnergy"] = hx(po.getBeamEnergy()); g["BeamEnergySpread"] = hx(po.getEnergySpread());
    g["Impedance"] = po.getImpedanceFile(); g["VacuumGap"] = hx(po.getVacuumChamberGap()); g["UseCSR"] = std::to_string(po.getUseCSR());
    g["CollimatorRadius"] = hx(po.getCollimatorRadius()); g["WallConductivity"] = hx(po.getWallConductivity()); g["WallSusceptibility"] = hx(po.getWallSusceptibility());
    g["CutoffFreq"] = hx(po.getCutoffFrequency()); g["AcceleratingVoltage"] = hx(po.getRFVoltage()); g["LinearRF"] = std::to_string(po.getLinearRF());
    g["RFAmplitudeSpread"] = hx(po.getRFAmplitudeSpread()); g["RFPhaseSpread"] = hx(po.getRFPhaseSpread()); g["RFPhaseModAmplitude"] = hx(po.getRFPhaseModAmplitude());
    g["RFPhaseModFrequency"] = hx(po.getRFPhaseModFrequency());
    g["cldev"] = std::to_string(po.getCLDevice()); g["output"] = po.getOutFile(); g["outstep"] = std::to_string(po.getOutSteps()); g["SavePhaseSpace"] = std::to_string(po.getSavePhaseSpace());
    g["tracking"] = po.getParticleTracking(); g["verbose"] = std::to_string(po.getVerbosity());
    g["StepsPerTs"] = std::to_string(po.getStepsPerTsync()); g["StepsPerRevolution"] = hx(po.getStepsPerTrev()); g["padding"] = hx(po.getPadding()); g["RoundPadding"] = std::to_string(po.getRoundPadding());
    g["PhaseSpaceSize"] = hx(po.getPhaseSpaceSize()); g["PhaseSpaceShiftX"] = hx(po.getPSShiftX()); g["PhaseSpaceShiftY"] = hx(po.getPSShiftY());
    g["RenormalizeCharge"] = std::to_string(po.getRenormalizeCharge()); g["FPType"] = std::to_string(po.getFPType()); g["FPTrack"] = std::to_string(po.getFPTrack());
    g["GridSize"] = std::to_string(po.getGridSize()); g["rotations"] = hx(po.getNRotations()); g["derivation"] = std::to_string(po.getDerivationType());
    g["InterpolationPoints"] = std::to_string(po.getInterpolationPoints()); g["InterpolateClamped"] = std::to_string(po.getInterpolationClamped());
    return g;
}
// what the getter must return for a textual value of an option (reference conversion, independent of boost)
inline std::string image(const Opt& o, const std::string& text) {
    switch (o.type) {
    case 'f': return hx((double)strtof(text.c_str(), nullptr));
    case 'd': return hx(strtod(text.c_str(), nullptr));
    case 'u': case 'i': case 'l': return std::to_string(strtoll(text.c_str(), nullptr, 10));
    case 'b': return (text == "1" || text == "true" || text == "on" || text == "yes") ? "1" : "0";
    case 's': return text == "/dev/null" ? "" : text;
    case 'v': { std::string s; std::istringstream is(text); std::string t; while (is >> t) s += hx((double)strtof(t.c_str(), nullptr)) + " "; return s; }
    }
    return text;
}

struct Setting { std::string name, value; };
inline std::vector<std::string> split(const std::string& s) { std::vector<std::string> v; std::istringstream is(s); std::string t; while (is >> t) v.push_back(t); return v; }
inline void write_cfg(const std::string& path, const std::vector<Setting>& cfg) {
    std::ofstream f(path);
    for (auto& s : cfg) {
        const Opt* o = find(s.name);
        if (o && o->type == 'v') { for (auto& t : split(s.value)) f << s.name << "=" << t << "\n"; }
        else f << s.name << "=" << s.value << "\n";
    }
}
// parse with the real class; returns 1 (run), 0 (parse() said: do not run), -1 (exception; what in err)
inline int parse(ProgramOptions& po, const std::vector<Setting>& cli, const std::string& cfgpath, std::string& err) {
    std::vector<std::string> a = {"inovesa", "--config", cfgpath.empty() ? "/dev/null" : cfgpath};
    for (auto& s : cli) { a.push_back(s.name[0] == '-' ? s.name : "--" + s.name); const Opt* o = find(s.name); if (o && o->type == 'v') { for (auto& t : split(s.value)) a.push_back(t); } else a.push_back(s.value); }
    std::vector<char*> av; for (auto& s : a) av.push_back(const_cast<char*>(s.c_str()));
    try { return po.parse((int)av.size(), av.data()) ? 1 : 0; }
    catch (std::exception& e) { err = e.what(); return -1; }
    catch (...) { err = "unknown exception"; return -1; }
}
inline std::string tmpdir(const mcx::Report& R, const char* tag) {
    char b[256]; snprintf(b, 256, "opt_%s_%d_%d", tag, R.shard, (int)getpid()); mkdir(b, 0755); return b;
}
inline std::string sstr(const std::vector<Setting>& v) { std::string s; for (auto& x : v) s += x.name + "=" + x.value + ";"; return s; }
}  // namespace op
