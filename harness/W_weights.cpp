// W_weights: complete enumeration of SourceMap::calcCoefficiants over ALL single-precision fractional
// offsets in [0,1) (0x3F800000 = 1 065 353 216 bit patterns) x interpolation orders 1..4.
// Oracles (C01: weights sum to one; C02: moments f^d for d < order, unit weight at f = 0).
// Shared by C01 and C02 (--prop selects the label only).
#include "inov.hpp"
using namespace inov;

int main(int argc, char** argv) {
    mcx::Report R; std::string prop = "C02";
    for (int i = 1; i < argc; i++) if (std::string(argv[i]) == "--prop" && i + 1 < argc) prop = argv[i + 1];
    R.init(argc, argv, prop.c_str(), "W_weights");
    R.rule = "every float bit pattern f in [0,1) x interpolation order 1..4 through the real SourceMap::calcCoefficiants; "
             "non-trivial = f != 0 (each bit pattern is a distinct input by construction)";
    const uint32_t TOTAL = 0x3F800000u;
    uint32_t lo = (uint64_t)TOTAL * R.shard / R.nshards, hi = (uint64_t)TOTAL * (R.shard + 1) / R.nshards;
    if (!R.only_case.empty()) {
        auto m = mcx::parse_desc(R.only_case); lo = strtoul(m["bits"].c_str(), 0, 0); hi = lo + 1;
    }
    const double tol_sum = 6e-7, tol_mom = 3e-6;
    double worst_sum = 0, worst_mom = 0; uint64_t nontrivial = 0;
    static const int node0[5] = {0, 0, 0, -1, -1};
    for (uint32_t b = lo; b < hi; b++) {
        float f; memcpy(&f, &b, 4);
        for (int it = 1; it <= 4; it++) {
            float ic[4] = {7, 7, 7, 7};
            SourceMap::calcCoefficiants(ic, f, it);
            double s = 0, m1 = 0, m2 = 0, m3 = 0;
            for (int j = 0; j < it; j++) { double x = node0[it] + j, w = ic[j]; s += w; m1 += w * x; m2 += w * x * x; m3 += w * x * x * x; }
            double es = std::fabs(s - 1), em = 0;
            if (it >= 2) em = std::max(em, std::fabs(m1 - (double)f));
            if (it >= 3) em = std::max(em, std::fabs(m2 - (double)f * f));
            if (it >= 4) em = std::max(em, std::fabs(m3 - (double)f * f * f));
            if (es > worst_sum) worst_sum = es;
            if (em > worst_mom) worst_mom = em;
            bool bad = !(es <= tol_sum) || !(em <= tol_mom);
            std::string why;
            if (bad) why = es > tol_sum || !(es == es) ? "sum" : "moment";
            if (b == 0) {  // offset zero: exactly one unit weight (on node 0), all others exactly zero
                for (int j = 0; j < it; j++) { float want = (node0[it] + j == 0) ? 1.f : 0.f; if (ic[j] != want) { bad = true; why = "unit-weight-at-zero"; } }
            }
            if (bad) {
                char d[200]; snprintf(d, 200, "f=%.9g it=%d weights=%.9g,%.9g,%.9g,%.9g sum-1=%.3g moment_err=%.3g", f, it, ic[0], ic[1], ic[2], ic[3], s - 1, em);
                R.violate(prop + "/weights/it=" + std::to_string(it) + "/" + why, mcx::Desc()("bits", b).str(), d);
            }
        }
        if (b != 0) nontrivial += 4;
        R.evaluations += 4;
        if (R.samples.size() < 3 || ((b - lo) % 20000000u == 0 && R.samples.size() < 12)) R.samples.push_back(mcx::Desc()("bits", b).f("f", f).str());
    }
    R.numbers["sum_distinct_extra"] = (double)nontrivial;
    R.numbers["worst_weight_sum_error"] = worst_sum;
    R.numbers["worst_moment_error"] = worst_mom;
    R.bound_done("weights: all 0x3F800000 floats in [0,1) x orders 1..4 (complete)");
    return R.finish();
}
