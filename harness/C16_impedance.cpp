// C16: impedance models are well-formed, passive, correctly scaled and causal; the factory returns the sum of the parts.
#include "efield.hpp"
using namespace ef;
static mcx::Report R;

static uint64_t zhash(const std::vector<impedance_t>& z, const std::string& k) { return z.empty() ? mcx::fnvs(k) : mcx::fnv(z.data(), 8 * z.size(), mcx::fnvs(k)); }

// common well-formedness: exactly n finite samples, zero above n/2, Re >= 0
static bool wellformed(const Impedance& imp, size_t n, const std::string& key, const std::string& kase) {
    const auto& z = imp.impedance(); bool ok = true;
    if (z.size() != n || imp.nFreqs() != n) { R.violate(key + "/sample-count", kase, "size " + std::to_string(z.size()) + " nFreqs " + std::to_string(imp.nFreqs()) + " requested " + std::to_string(n)); return false; }
    for (size_t i = 0; i < n; i++) {
        if (!std::isfinite(z[i].real()) || !std::isfinite(z[i].imag())) { R.violate(key + "/non-finite", kase, "sample " + std::to_string(i)); ok = false; break; }
        if (i > n / 2 && (z[i].real() != 0.f || z[i].imag() != 0.f)) { R.violate(key + "/negative-frequency-half-not-zero", kase, "sample " + std::to_string(i) + " = " + mcx::fstr(z[i].real()) + "," + mcx::fstr(z[i].imag())); ok = false; break; }
        if (z[i].real() < 0.f) { R.violate(key + "/negative-real-part", kase, "sample " + std::to_string(i) + " Re = " + mcx::fstr(z[i].real())); ok = false; break; }
    }
    return ok;
}
static void power_law(const std::vector<impedance_t>& z, size_t n, unsigned mult, const std::string& key, const std::string& kase) {
    for (size_t k = 1; k * mult <= n / 2; k++) {
        const std::complex<double> a(z[k].real(), z[k].imag()), b(z[k * mult].real(), z[k * mult].imag());
        if (std::abs(a) == 0) { R.violate(key + "/zero-sample", kase, "sample " + std::to_string(k)); return; }
        const std::complex<double> r = b / a;
        if (std::abs(r - 2.0) > 2e-5) { char d[160]; snprintf(d, 160, "Z[%zu]/Z[%zu] = %.7g%+.7gi, expected 2", k * mult, k, r.real(), r.imag()); R.violate(key + "/power-law", kase, d); return; }
    }
}

// absolute scale: the documented closed forms, evaluated in double precision on the documented frequency axis f_i = i f_max/(n-1)
static void absolute(const std::vector<impedance_t>& z, size_t n, double fmax, double f0, std::complex<double> coeff, double power, const std::string& key, const std::string& kase) {
    for (size_t i = 1; i <= n / 2; i++) {
        const std::complex<double> want = coeff * std::pow(i * fmax / f0 / (n - 1.0), power), got(z[i].real(), z[i].imag());
        if (!(std::abs(got - want) <= 3e-5 * std::abs(want))) { char d[200]; snprintf(d, 200, "sample %zu (f = %.6g f0): %.7g%+.7gi, closed form %.7g%+.7gi", i, i * fmax / f0 / (n - 1.0), got.real(), got.imag(), want.real(), want.imag()); R.violate(key + "/absolute-scale", kase, d); return; }
    }
}

static void part_models(const std::vector<size_t>& ns) {
    // frequency ranges from a fraction of the revolution frequency (short axes with a non-integral number of harmonics) to 5 THz
    const float frevs[] = {1e6f, 2.7e6f, 9e6f};
    for (size_t n : ns) for (int fi = 0; fi < 7; fi++) for (float frev : frevs) {
        const float fmax = fi == 0 ? 1e11f : fi == 1 ? 1e12f : fi == 2 ? 5e12f : fi == 3 ? 0.5f * frev : fi == 4 ? 7.9f * frev : fi == 5 ? 25.7f * frev : 185.2f * frev;
        std::string kase = mcx::Desc()("part", "models")("n", n).f("fmax", fmax).f("frev", frev).str();
        if (!R.mine(kase)) continue;
        if (R.out_of_time()) { R.not_completed = kase; return; }
        {   FreeSpaceCSR z(n, frev, fmax);
            R.eval(kase + " model=freespace", zhash(z.impedance(), kase + "fs"), false);
            if (wellformed(z, n, "C16/FreeSpaceCSR", kase)) {
                power_law(z.impedance(), n, 8, "C16/FreeSpaceCSR", kase);
                absolute(z.impedance(), n, fmax, frev, std::complex<double>(306.3, 176.9), 1.0 / 3.0, "C16/FreeSpaceCSR", kase);
                if (n >= 3 && !(z.impedance()[1].real() > 0 && z.impedance()[1].imag() > 0)) R.violate("C16/FreeSpaceCSR/phase", kase, "first sample not in the first quadrant");
            } }
        for (double s : {1e6, 5.8e7}) for (double xi : {-0.5, 0.0, 2.0}) for (double b : {0.005, 0.016}) {
            ResistiveWall z(n, frev, fmax, physcons::c / frev, s, xi, b);
            R.eval(kase + " model=wall", zhash(z.impedance(), kase + "rw" + mcx::fstr(s) + mcx::fstr(xi) + mcx::fstr(b)), false);
            if (wellformed(z, n, "C16/ResistiveWall", kase)) {
                power_law(z.impedance(), n, 4, "C16/ResistiveWall", kase);
                const double L = physcons::c / frev;
                absolute(z.impedance(), n, fmax, frev, std::sqrt(Impedance::Z0 * (1 + xi) * frev / s / M_PI / physcons::c) * L / 2 / b * std::complex<double>(1, -1), 0.5, "C16/ResistiveWall", kase);
            }
        }
        // openings from an eighth of the pipe radius up to a hair's breadth below it (1 - inner/outer = 1e-3 ... 2e-8: ln(outer/inner) is then that small number itself)
        for (double outer : {0.016, 0.05}) for (double rel : {0.125, 0.2, 0.625, 1 - 1e-3, 1 - 1e-5, 1 - 1e-6, 1 - 1e-7, 1 - 2e-8}) {
            const double inner = outer * rel;
            CollimatorImpedance z(n, fmax, outer, inner);
            R.eval(kase + " model=collimator", zhash(z.impedance(), kase + "co" + mcx::fstr(outer) + mcx::fstr(inner)), false);
            if (wellformed(z, n, "C16/Collimator", kase)) {
                const auto& v = z.impedance(); const float want = (float)(Impedance::Z0 / M_PI * std::log(outer / inner));
                for (size_t i = 0; i < n / 2; i++) if (!(v[i].real() > 0) || v[i].imag() != 0.f || v[i] != v[0] || std::fabs(v[i].real() / want - 1) > 1e-5) { R.violate("C16/Collimator/not-a-positive-constant", kase, "sample " + std::to_string(i) + " = " + mcx::fstr(v[i].real())); break; }
            }
        }
        {   ConstImpedance z(n, fmax, impedance_t(3.f, -2.f));
            R.eval(kase + " model=const", zhash(z.impedance(), kase + "cz"), false);
            const auto& v = z.impedance();
            if (v.size() != n) R.violate("C16/ConstImpedance/sample-count", kase, std::to_string(v.size()));
            else for (size_t i = 0; i < n; i++) if (v[i] != (i < n / 2 ? impedance_t(3.f, -2.f) : impedance_t(0, 0))) { R.violate("C16/ConstImpedance/shape", kase, "sample " + std::to_string(i)); break; }
        }
    }
    R.bound_done("models: sample counts x 7 f_max (0.5 f_rev ... 5 THz) x 3 f_rev x {free space, wall(2 conductivities x 3 susceptibilities x 2 radii), collimator(2 radii x 8 openings down to 2e-8 below the radius), constant}");
}

static void part_plates(const std::vector<size_t>& ns) {
    const float fmaxs[] = {1e11f, 1e12f, 5e12f}; const float f0 = 2.7e6f;
    const double Rb = physcons::c / (2 * M_PI * f0);
    for (size_t n : ns) for (float fmax : fmaxs) for (double g : {0.01, 0.032, 0.3, 1.0, 3.0, 10.0}) {
        std::string kase = mcx::Desc()("part", "plates")("n", n).f("fmax", fmax).f("gap", g).str();
        if (!R.mine(kase)) continue;
        if (R.out_of_time()) { R.not_completed = kase; return; }
        ParallelPlatesCSR pp(n, f0, fmax, g); FreeSpaceCSR fs(n, f0, fmax);
        R.eval(kase, zhash(pp.impedance(), kase), false);
        if (!wellformed(pp, n, "C16/ParallelPlates", kase)) continue;
        const double fc = physcons::c / (2 * M_PI) * std::sqrt(Rb / (g * g * g)), df = (double)fmax / (n - 1.0);
        for (size_t i = 1; i <= n / 2; i++) {
            const double f = i * df; const std::complex<double> a(pp.impedance()[i].real(), pp.impedance()[i].imag()), b(fs.impedance()[i].real(), fs.impedance()[i].imag());
            if (f >= 20 * fc) {
                const double dev = std::abs(a / b - 1.0); R.maxnum("worst_plates_vs_freespace_high_f", dev);
                if (dev > 0.02) { char d[200]; snprintf(d, 200, "f = %.4g = %.1f f_c: Z_pp/Z_fs - 1 = %.4g", f, f / fc, dev); R.violate("C16/ParallelPlates/does-not-tend-to-free-space", kase, d); break; }
            } else if (f <= fc / 2) {
                const double r1 = a.real() / b.real(), r2 = std::abs(a) / std::abs(b); R.maxnum("worst_plates_real_ratio_below_cutoff", r1); R.maxnum("worst_plates_abs_ratio_below_cutoff", r2);
                if (r1 > 1e-2 || r2 > 0.2) { char d[200]; snprintf(d, 200, "f = %.4g = %.2f f_c: Re ratio %.4g, |Z| ratio %.4g", f, f / fc, r1, r2); R.violate("C16/ParallelPlates/not-suppressed-below-cutoff", kase, d); break; }
            }
        }
    }
    R.bound_done("plates: sample counts x 3 f_max x 6 gaps (1 cm ... 10 m) against free space (f >= 20 f_c) and suppression (f <= f_c/2)");
}

// --- part=pairs: construction histories.  A model's samples are a function of its own arguments, not of what was built before in the same process.
// Lattice of argument sets per model class; the reference table of every lattice point is computed in a child process forked BEFORE the parent has
// built anything (a fresh process state each); then, in the parent, every ordered pair (A, B) of lattice points is built back to back and B's samples
// must be those of the fresh process, bit for bit.
#include <unistd.h>
#include <sys/wait.h>
struct ZArgs { int cls; size_t n; double a, b, c, d, e; };   // cls 0 free space (frev,fmax) 1 wall (frev,fmax,s,xi,b) 2 plates (f0,fmax,g) 3 collimator (fmax,outer,inner)
static std::vector<impedance_t> build_z(const ZArgs& z) {
    switch (z.cls) {
        case 0: return FreeSpaceCSR(z.n, z.a, z.b).impedance();
        case 1: return ResistiveWall(z.n, z.a, z.b, physcons::c / z.a, z.c, z.d, z.e).impedance();
        case 2: return ParallelPlatesCSR(z.n, z.a, z.b, z.c).impedance();
        default: return CollimatorImpedance(z.n, z.b, z.c, z.d).impedance();
    }
}
static std::string zstr(const ZArgs& z) { const char* nm[] = {"freespace", "wall", "plates", "collimator"}; return std::string(nm[z.cls]) + "(" + std::to_string(z.n) + "," + mcx::fstr(z.a) + "," + mcx::fstr(z.b) + "," + mcx::fstr(z.c) + "," + mcx::fstr(z.d) + "," + mcx::fstr(z.e) + ")"; }
static std::vector<ZArgs> zlattice(bool T) {
    std::vector<ZArgs> L;
    for (size_t n : {(size_t)8, (size_t)9}) for (double frev : {1e6, 9e6}) for (double fmax : {1e11, 1e12}) L.push_back({0, n, frev, fmax, 0, 0, 0});
    for (size_t n : {(size_t)8, (size_t)9}) for (double fmax : {1e11, 1e12}) for (double s : {1e6, 5.8e7}) for (double b : {0.005, 0.016}) L.push_back({1, n, 9e6, fmax, s, 0.0, b});
    for (size_t n : T ? std::vector<size_t>{16, 33, 64} : std::vector<size_t>{16, 33}) for (double fmax : {1e11, 1e12, 5e12}) for (double g : {0.01, 0.032, 0.3}) L.push_back({2, n, 2.7e6, fmax, g, 0, 0});
    for (size_t n : {(size_t)8, (size_t)9}) for (double fmax : {1e11, 1e12}) for (double o : {0.016, 0.05}) L.push_back({3, n, 0, fmax, o, 0.002, 0});
    return L;
}
// must be called before the process has constructed any impedance
static std::vector<uint64_t> fresh_reference_hashes(const std::vector<ZArgs>& L) {
    std::vector<uint64_t> ref(L.size(), 0);
    for (size_t i = 0; i < L.size(); i++) {
        int fd[2]; if (pipe(fd) != 0) { perror("pipe"); exit(3); }
        pid_t pid = fork();
        if (pid == 0) { close(fd[0]); auto z = build_z(L[i]); uint64_t h = zhash(z, "") ^ (uint64_t)z.size(); if (write(fd[1], &h, 8) != 8) _exit(4); _exit(0); }
        close(fd[1]); uint64_t h = 0; if (read(fd[0], &h, 8) != 8) h = 0; close(fd[0]); int st; waitpid(pid, &st, 0); ref[i] = h;
    }
    return ref;
}
static void part_pairs(const std::vector<ZArgs>& L, const std::vector<uint64_t>& ref) {
    const char* nm[] = {"FreeSpaceCSR", "ResistiveWall", "ParallelPlates", "Collimator"};
    for (size_t i = 0; i < L.size(); i++) for (size_t j = 0; j < L.size(); j++) {
        if (L[i].cls != L[j].cls) continue;
        std::string kase = mcx::Desc()("part", "pairs")("first", zstr(L[i]))("then", zstr(L[j])).str();
        if (!R.mine(kase)) continue;
        if (R.out_of_time()) { R.not_completed = kase; return; }
        auto a = build_z(L[i]); auto b = build_z(L[j]);
        const uint64_t h = zhash(b, "") ^ (uint64_t)b.size();
        R.eval(kase, mcx::fnv(&h, 8, mcx::fnvs(kase)), i == j);
        if (h != ref[j]) R.violate(std::string("C16/") + nm[L[j].cls] + "/depends-on-what-was-built-before", kase, "samples differ from those the same arguments give in a fresh process");
    }
    R.bound_done("pairs: every ordered pair of argument sets per model class (" + std::to_string(L.size()) + " lattice points) built back to back; the second object's samples == those of a fresh process (fork before anything is built), bitwise");
}

static bool same(const std::vector<impedance_t>& a, const std::vector<impedance_t>& b, double& worst) {
    if (a.size() != b.size()) return false;
    double mag = 0; for (auto& v : b) mag = std::max(mag, (double)std::abs(v));
    for (size_t i = 0; i < a.size(); i++) { double d = std::abs(a[i] - b[i]); worst = std::max(worst, mag > 0 ? d / mag : d); if (d > 2e-6 * mag) return false; }
    return true;
}
static void part_factory(const std::vector<size_t>& ns, const std::string& zfile) {
    // independent ring parameters on purpose: R_bend is NOT c/(2 pi f_rev)
    const double Rb = 5.559, frev = 2.7157e6; const float fmax = 2e12f;
    const double f0 = physcons::c / (2 * M_PI * Rb);
    for (size_t n : ns) for (int gs = 0; gs < 3; gs++) for (int csr = 0; csr < 2; csr++) for (int wall = 0; wall < 2; wall++) for (int coll = 0; coll < 5; coll++) for (int file = 0; file < 2; file++) {
        const double gap = gs == 0 ? -0.03 : gs == 1 ? 0.0 : 0.032;
        std::string kase = mcx::Desc()("part", "factory")("n", n).f("gap", gap)("csr", csr)("wall", wall)("coll", coll)("file", file).str();
        if (!R.mine(kase)) continue;
        if (R.out_of_time()) { R.not_completed = kase; return; }
        const double s = wall ? 5.8e7 : 0.0, xi = 0.1, crad = coll == 0 ? 0.0 : coll == 1 ? 0.004 : coll == 2 ? 0.05 /* wider than the pipe: not a collimator */
                                        : coll == 3 ? std::fabs(gap / 2) /* exactly the pipe radius: no constriction */ : 0.02 /* between the pipe radius and the full gap: wider than the pipe */;
        std::string f = file ? zfile : std::string("");
        auto got = makeImpedance(n, nullptr, fmax, Rb, frev, gap, csr, s, xi, crad, f);
        // reference: the contributions built separately and added sample by sample in the harness (not through Impedance::operator+=),
        // on the requested grid of n samples; a table shorter than the grid contributes to the samples it has, a longer one is cut
        std::vector<impedance_t> want(n, impedance_t(0, 0)); bool any = false;
        auto add = [&](const Impedance& c) { any = true; const auto& v = c.impedance(); for (size_t i = 0; i < std::min<size_t>(n, v.size()); i++) want[i] += v[i]; };
        const double radius = std::fabs(gap / 2);
        if (gap != 0) {
            if (csr) { if (gap > 0) add(ParallelPlatesCSR(n, f0, fmax, gap)); else add(FreeSpaceCSR(n, f0, fmax)); }
            if (s > 0 && xi >= -1) add(ResistiveWall(n, frev, fmax, physcons::c / frev, s, xi, radius));
            if (0 < crad && crad < radius) add(CollimatorImpedance(n, fmax, radius, crad));
        }
        if (!f.empty()) {
            // the table as the file states it, read here (rows "label Re Im" in file order, a row repeating the label of the row before is skipped) - not through Impedance's own reader
            std::ifstream is(f); long lab, old = -1; double re, im; std::vector<impedance_t> rows; bool first = true;
            while (is >> lab >> re >> im) { if (first || lab != old) rows.push_back(impedance_t((float)re, (float)im)); old = lab; first = false; }
            any = true; for (size_t i = 0; i < std::min<size_t>(n, rows.size()); i++) want[i] += rows[i];
            Impedance direct(f, fmax);
            if (direct.impedance().size() != rows.size() || direct.nFreqs() != rows.size()) { R.violate("C16/table/sample-count", kase, "Impedance(file) holds " + std::to_string(direct.impedance().size()) + " samples, the file " + std::to_string(rows.size()) + " rows"); }
            else for (size_t i = 0; i < rows.size(); i++) if (direct.impedance()[i] != rows[i]) { R.violate("C16/table/sample-is-not-the-row", kase, "sample " + std::to_string(i) + " = " + mcx::fstr(direct.impedance()[i].real()) + ", row " + std::to_string(i) + " of the file says " + mcx::fstr(rows[i].real())); break; }
        }
        R.eval(kase, got ? zhash(got->impedance(), kase) : mcx::fnvs(kase + "null"), !any);
        if (!any) { if (got != nullptr) R.violate("C16/factory/something-from-nothing", kase, "no contribution selected but an impedance was returned"); continue; }
        if (got == nullptr) { R.violate("C16/factory/nothing-returned", kase, "contributions selected but nullptr returned"); continue; }
        if (got->impedance().size() != n || got->nFreqs() != n) {
            R.violate("C16/factory/sample-count", kase, "size " + std::to_string(got->impedance().size()) + " nFreqs " + std::to_string(got->nFreqs()) + " requested " + std::to_string(n)); continue; }
        double worst = 0;
        if (!same(got->impedance(), want, worst)) {
            char d[160]; snprintf(d, 160, "factory result differs from the sum of the separately built contributions (relative %.3g)", worst);
            R.violate(std::string("C16/factory/not-the-sum") + (gap < 0 ? "/gap<0" : gap > 0 ? "/gap>0" : "/gap=0"), kase, d);
        }
        R.maxnum("worst_factory_vs_sum", worst);
        if (f.empty()) wellformed(*got, n, "C16/factory", kase);   // a user-supplied table is not a model: anything may be in it
    }
    R.bound_done("factory: sample counts x gap{<0,0,>0} x CSR x wall x collimator{none, inside, wider than the full gap, exactly the pipe radius, between radius and full gap} x file (40 rows: longer, equal and shorter than the grid), with R_bend independent of f_rev; reference summed sample by sample in the harness");
}

// causality through the real wake computation: impulse response of each model
static void part_causal(const std::vector<unsigned>& ns) {
    for (unsigned n : ns) for (int model = 0; model < 3; model++) for (unsigned pad : {4u, 8u}) {
        std::string kase = mcx::Desc()("part", "causal")("n", n)("model", model == 0 ? "freespace" : model == 1 ? "wall" : "plates-wide")("pad", pad).str();
        if (!R.mine(kase)) continue;
        if (R.out_of_time()) { R.not_completed = kase; return; }
        const unsigned N = n * pad;
        Rig rig(Cfg{n, 1, N, 0, {0}});
        // frequency axis of the field: f_max = c/(dq*scale) ; sample the models on exactly that axis
        const float fmax = (float)(rig.f->getFreqRuler()->max() * rig.f->getFreqRuler()->scale("Hertz"));
        std::shared_ptr<Impedance> z;
        if (model == 0) z = std::make_shared<FreeSpaceCSR>(N, 2.7e6f, fmax);
        else if (model == 1) z = std::make_shared<ResistiveWall>(N, 2.7e6f, fmax, 110.4, 5.8e7, 0.0, 0.016);
        else z = std::make_shared<ParallelPlatesCSR>(N, 2.7e6f, fmax, 0.5);
        rig.set_z(z->impedance());
        std::vector<float> rho(n); const double c0 = n / 2;
        for (unsigned x = 0; x < n; x++) rho[x] = (float)std::exp(-0.5 * (x - c0) * (x - c0) / (1.5 * 1.5));   // 1.5 cells: narrow, yet smooth enough to keep the band-limit ringing small
        rig.set_profile(0, rho);
        rig.f->wakePotential();
        const auto& W = rig.f->getWakePotentials();
        double lo = 0, hi = 0;
        for (unsigned x = 0; x < n; x++) { if (x + 7 < c0) lo += std::fabs(W[0][x]); if (x > c0 + 7) hi += std::fabs(W[0][x]); }
        R.eval(kase, mcx::fnv(&W[0][0], 4 * n, mcx::fnvs(kase)), false);
        const double ratio = lo / (hi + 1e-300);
        R.texts["tail ratio (low-index side / high-index side) " + kase] = mcx::fstr(ratio);
        // pinned to the code's convention: CSR acts towards high indices... see DESIGN (which side is 'ahead' is left open by the property;
        // what is demanded is one-sidedness and that CSR and wall are on OPPOSITE sides)
        if (model == 1) { if (!(ratio > 3)) R.violate("C16/causality/wall-not-one-sided", kase, "tail ratio " + mcx::fstr(ratio) + " (expected > 3)"); }
        else { if (!(ratio < 1.0 / 3)) R.violate(std::string("C16/causality/") + (model == 0 ? "freespace" : "plates") + "-not-one-sided", kase, "tail ratio " + mcx::fstr(ratio) + " (expected < 1/3)"); }
    }
    R.bound_done("causal: impulse response of free space, wall and wide-gap plates through the real wakePotential, n x 2 padding factors");
}

int main(int argc, char** argv) {
    R.init(argc, argv, "C16", "C16_impedance"); quiet();
    std::string zfile; for (int i = 1; i < argc; i++) if (std::string(argv[i]) == "--zfile" && i + 1 < argc) zfile = argv[i + 1];
    R.rule = "one evaluation = one impedance object built by the real constructors / factory (or one impulse response); distinct = FNV of case + samples; trivial = factory call with nothing selected";
    R.sample_every = 500;
    const bool T = true /* the wide lattices run in both tiers */; const bool D = R.thorough(); (void)D;
    const auto ZL = zlattice(T);
    const auto zref = R.warm ? std::vector<uint64_t>() : fresh_reference_hashes(ZL);     // before anything is built in this process
    std::vector<unsigned> cn = T ? std::vector<unsigned>{32, 48, 64, 128} : std::vector<unsigned>{32, 64};
    if (R.warm) { for (unsigned n : cn) for (unsigned pad : {4u, 8u}) { Rig r(Cfg{n, 1, n * pad, 0, {0}}); r.f->wakePotential(); } return 0; }
    std::vector<size_t> ns = T ? std::vector<size_t>{0, 1, 2, 3, 4, 5, 8, 9, 16, 17, 32, 33, 64, 65, 128, 129, 256} : std::vector<size_t>{0, 1, 2, 3, 4, 5, 8, 9, 16, 17, 32, 33};
    if (D) { ns.push_back(257); ns.push_back(512); ns.push_back(1000); ns.push_back(1025); }
    part_models(ns);
    part_plates(T ? std::vector<size_t>{16, 17, 64, 65, 128} : std::vector<size_t>{16, 33});
    part_factory(T ? std::vector<size_t>{4, 9, 32, 33, 64} : std::vector<size_t>{4, 9, 32}, zfile);
    part_causal(cn);
    part_pairs(ZL, zref);
    return R.finish();
}
