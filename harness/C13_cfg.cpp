// C13: the .cfg saved next to the results reproduces the run.
// parse(original argv [+ parent config]) -> save(file) -> fresh object parse(--config file) -> every compiled getter must agree exactly.
// Enumerated (deviation bounding): the default invocation; every option singly x 2 values x {command line, parent config, both};
// every pair of options x 4 source combinations; legacy aliases in the parent config; alpha0 vs synchrotron frequency.
#include "opts.hpp"
using namespace op;
static mcx::Report R;
static std::string DIR;

static void run_case(const std::string& kase, const std::vector<Setting>& cli, const std::vector<Setting>& cfg, const std::string& keyclass = "") {
    std::string parent; if (!cfg.empty()) { parent = DIR + "/parent.cfg"; write_cfg(parent, cfg); }
    ProgramOptions a; std::string err;
    int rc = parse(a, cli, parent, err);
    if (rc != 1) { R.violate("C13/original-parse-failed", kase, err); return; }
    auto g1 = getters(a);
    const std::string saved = DIR + "/results/saved.cfg";   // the .cfg is written next to the results, which need not be where the parent config and its input files are
    a.save(saved);
    ProgramOptions b; rc = parse(b, {}, saved, err);
    if (rc != 1) { R.violate("C13/saved-cfg-does-not-parse", kase, err); return; }
    auto g2 = getters(b);
    uint64_t h = mcx::fnvs(kase); for (auto& kv : g2) h = mcx::fnvs(kv.second, h);
    R.eval(kase, h, cli.empty() && cfg.empty());
    for (auto& kv : g1) {
        if (kv.second == g2[kv.first]) continue;
        // which given setting is involved (for the key): the getter's own option if it was given, else 'default'
        bool given = false, viaalias = false;
        for (auto& s : cli) if (s.name == kv.first) given = true;
        for (auto& s : cfg) { if (s.name == kv.first) given = true; for (auto& al : ALIASES) if (s.name == al.alias && kv.first == al.canonical) viaalias = true; }
        std::ifstream f(saved); std::string line, shown; while (std::getline(f, line)) if (line.rfind(kv.first + "=", 0) == 0) shown += line + " ";
        R.violate("C13/roundtrip/" + keyclass + "getter=" + kv.first + (viaalias ? "/given-by-alias" : given ? "/given" : "/not-given"), kase,
                  "original " + kv.second + " reread " + g2[kv.first] + " ; saved line(s): " + (shown.empty() ? "(none)" : shown));
    }
}

int main(int argc, char** argv) {
    R.init(argc, argv, "C13", "C13_cfg"); quiet();
    R.rule = "one evaluation = parse -> save -> parse round trip on the real ProgramOptions; distinct = FNV of case + all getters of the reread object; trivial = default invocation";
    R.sample_every = 500;
    DIR = tmpdir(R, "c13");
    // the input files named by the option values exist - next to the parent config, not in the working directory
    mkdir((DIR + "/results").c_str(), 0755); mkdir((DIR + "/dir").c_str(), 0755); mkdir((DIR + "/p").c_str(), 0755);
    for (const char* fn : {"start.h5", "other.txt", "z.dat", "dir/other.dat", "t.txt", "p/q=1 b.txt"}) { std::ofstream f(DIR + "/" + fn); f << "0 1 0\n"; }
    const bool T = true /* the wide lattices run in both tiers */; const bool D = R.thorough(); (void)D;
    { std::string k = "defaults"; if (R.mine(k)) run_case(k, {}, {}); }
    // singles
    for (size_t i = 0; i < NOPTS; i++) for (int v = 0; v < 2; v++) for (int src = 0; src < 3; src++) {
        const Opt& o = OPTS[i]; const std::string val = v ? o.v2 : o.v1, other = v ? o.v1 : o.v2;
        std::string kase = std::string("single opt=") + o.name + " v=" + std::to_string(v) + " src=" + (src == 0 ? "cli" : src == 1 ? "cfg" : "both");
        if (!R.mine(kase)) continue;
        if (src == 0) run_case(kase, {{o.name, val}}, {});
        else if (src == 1) run_case(kase, {}, {{o.name, val}});
        else run_case(kase, {{o.name, val}}, {{o.name, other}});
    }
    R.bound_done("every option singly x 2 values x {command line, parent config, both}");
    for (auto& sh : SHORTS) for (int v = 0; v < 2; v++) {
        const Opt* o = find(sh.canonical); std::string kase = std::string("short ") + sh.sh + " v=" + std::to_string(v);
        if (R.mine(kase)) run_case(kase, {{sh.sh, v ? o->v2 : o->v1}}, {});
    }
    R.bound_done("every one-letter option name on the command line x 2 values");
    // file names with characters that mean something to the config-file syntax, given on the command line (where they are plain characters)
    for (const char* on : {"output", "InitialDistFile", "Impedance", "tracking"}) for (const char* val : {"run#2.h5", "a=b.dat", "x;y.txt", "[sec]z.h5", "tab\there.txt", " lead.h5", "trail.h5 ", "q\"uoted\".h5", "back\\slash.dat"}) {
        std::string kase = std::string("filename opt=") + on + " value='" + val + "'";
        const std::string v = val; const char* cls = v.find('#') != std::string::npos ? "hash" : (v[0] == ' ' || v.back() == ' ') ? "outer-blank" : "other";
        if (R.mine(kase)) run_case(kase, {{on, val}}, {}, std::string("file-name-with-") + cls + "/");
    }
    R.bound_done("file-name options x names containing # = ; [ ] tab, leading / trailing blank, quotes, backslash, given on the command line");
    // filling patterns: the saved file holds one BunchCurrent line per bucket, whatever the pattern looks like (empty buckets first, last, in a row; long trains)
    for (const char* val : {"0 2e-3 1e-3", "1e-3 0", "0 0 1e-3", "2e-3 0 0 1e-3", "0 1e-3 0", "1e-3 1e-3 1e-3 1e-3 1e-3 1e-3 1e-3", "1e-3 2e-3 3e-3 4e-3 5e-3 6e-3 7e-3 8e-3 9e-3", "5e-4 5e-4"}) for (int src = 0; src < 3; src++) {
        std::string kase = std::string("filling pattern='") + val + "' src=" + (src == 0 ? "cli" : src == 1 ? "cfg" : "both");
        if (!R.mine(kase)) continue;
        if (src == 0) run_case(kase, {{"BunchCurrent", val}}, {}, "filling-pattern/");
        else if (src == 1) run_case(kase, {}, {{"BunchCurrent", val}}, "filling-pattern/");
        else run_case(kase, {{"BunchCurrent", val}}, {{"BunchCurrent", "3e-3 0 1e-3"}}, "filling-pattern/");
    }
    R.bound_done("BunchCurrent x 8 filling patterns (leading / trailing / consecutive empty buckets, trains of 7 and 9) x {command line, parent config, both}");
    // aliases in the parent config, alone and against the canonical name on the command line
    for (auto& al : ALIASES) for (int v = 0; v < 2; v++) for (int withcli = 0; withcli < 2; withcli++) {
        const Opt* o = find(al.canonical); const std::string val = v ? o->v2 : o->v1, other = v ? o->v1 : o->v2;
        std::string kase = std::string("alias ") + al.alias + " v=" + std::to_string(v) + " canonical-on-cli=" + std::to_string(withcli);
        if (!R.mine(kase)) continue;
        run_case(kase, withcli ? std::vector<Setting>{{al.canonical, other}} : std::vector<Setting>{}, {{al.alias, val}});
    }
    // ignored compatibility options in the parent config
    for (auto ig : IGNORED) { std::string kase = std::string("ignored ") + ig; if (R.mine(kase)) run_case(kase, {{"GridSize", "64"}}, {{ig, "1"}}); }
    R.bound_done("legacy aliases and ignored compatibility options in the parent config");
    // pairs (deviation bound 2)
    for (size_t i = 0; i < NOPTS; i++) for (size_t j = i + 1; j < NOPTS; j++) for (int sc = 0; sc < (T ? 4 : 2); sc++) {
        const Opt &a = OPTS[i], &b = OPTS[j];
        std::string kase = std::string("pair ") + a.name + "+" + b.name + " src=" + std::to_string(sc);
        if (!R.mine(kase)) continue;
        if (R.out_of_time()) { R.not_completed = kase; goto done; }
        std::vector<Setting> cli, cfg;
        // sc: 0 = cli/cfg, 1 = cfg/cli, 2 = cli/cli, 3 = cfg/cfg ; values alternate
        ((sc == 0 || sc == 2) ? cli : cfg).push_back({a.name, (i + j) % 2 ? a.v1 : a.v2});
        ((sc == 1 || sc == 2) ? cli : cfg).push_back({b.name, (i + j) % 2 ? b.v2 : b.v1});
        run_case(kase, cli, cfg);
    }
    R.bound_done(std::string("all pairs of options x ") + (T ? "4" : "2") + " source combinations");
    if (D) {   // triples: thorough tier only
        for (size_t i = 0; i < NOPTS; i++) for (size_t j = i + 1; j < NOPTS; j++) for (size_t k = j + 1; k < NOPTS; k++) {
            std::string base = std::string("triple ") + OPTS[i].name + "+" + OPTS[j].name + "+" + OPTS[k].name;
            if (R.out_of_time()) { R.not_completed = base; goto done; }
            for (int pl : {1, 2, 4, 7, 0}) {     // which of the three sit on the command line (bit mask); the rest in the parent config
                const std::string kase = base + " pl=" + std::to_string(pl);
                if (!R.mine(kase)) continue;
                std::vector<Setting> cli, cfg; const size_t ix[3] = {i, j, k};
                for (int m = 0; m < 3; m++) ((pl >> m) & 1 ? cli : cfg).push_back({OPTS[ix[m]].name, (ix[m] + pl) % 2 ? OPTS[ix[m]].v1 : OPTS[ix[m]].v2});
                run_case(kase, cli, cfg);
            }
        }
        R.bound_done("all unordered triples of options x 5 placements");
    }
done:
    return R.finish();
}
