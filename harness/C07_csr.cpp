// C07: CSR power == energy the wake takes from the beam (Parseval), never negative for passive impedances.
// The power is a quadratic form in the profile and linear in Re Z: its values on e_i and e_i+e_j for the basis
// Re Z = e_k (all k < N) determine it for all profiles and all passive impedances of a configuration.
#include "efield.hpp"
using namespace ef;
static mcx::Report R;
static double worst_rel = 0;

// evaluates all oracles for the rig's current impedance and profile; fc2 = second (finite) cut-off
static void check(Rig& rig, const std::string& kase, const std::string& what, const std::vector<float>& rho, const std::string& keyb, bool passive, bool trivial) {
    const unsigned N = rig.c.N, n = rig.c.n;
    rig.set_profile(0, rho);
    rig.f->updateCSR(0);
    std::vector<float> S(rig.f->getCSRSpectrum(), rig.f->getCSRSpectrum() + N);
    const double P = rig.f->getCSRPower()[0], df = rig.f->getFreqRuler()->delta(), dq = rig.ps->getDelta(0), s = rig.f->getWakeScaling();
    rig.f->wakePotential();
    const auto& W = rig.f->getWakePotentials();
    double sumS = 0, e = 0, absS = 0; bool neg = false, fin = true;
    for (unsigned k = 0; k < N; k++) { sumS += S[k]; absS += std::fabs(S[k]); if (S[k] < 0) neg = true; if (!std::isfinite(S[k])) fin = false; }
    for (unsigned x = 0; x < n; x++) e += (double)rho[x] * W[0][x];
    e *= 0.5 * dq * dq / s;
    // natural magnitude of the quadratic form for this impedance and profile: rounding is relative to it, not to a (possibly vanishing) result
    double rs = 0, zm = 0; for (unsigned x = 0; x < n; x++) rs += std::fabs(rho[x]); for (unsigned k = 0; k < N; k++) zm = std::max(zm, (double)std::abs((*rig.z)[k]));
    const double scale = dq * dq * rs * rs * zm;
    uint64_t h = mcx::fnv(S.data(), 4 * N, mcx::fnvs(kase + what));
    R.eval(kase + " " + what, h, trivial);
    if (!fin) { R.violate(keyb + "/non-finite", kase, what); return; }
    if (passive && neg) { R.violate(keyb + "/negative-spectrum", kase, what); }
    if (passive && (P < 0 || e < -4e-6 * scale)) { R.violate(keyb + "/negative-power", kase, what + " P=" + mcx::fstr(P) + " wake-energy=" + mcx::fstr(e)); }
    if (!(std::fabs(P - df * sumS) <= 2e-6 * df * absS + 1e-30)) { R.violate(keyb + "/power-is-not-integral-of-spectrum", kase, what + " P=" + mcx::fstr(P) + " df*sum=" + mcx::fstr(df * sumS)); }
    // Parseval: sum_k S_k - S_0/2 - a*S_top = wake energy, a = 1 (top bin not used by the wake), 1/2 or 0 (used; even / odd length)
    const unsigned top = N / 2;
    double best = 1e300;
    for (double a : {1.0, 0.5, 0.0}) best = std::min(best, std::fabs(sumS - 0.5 * S[0] - a * S[top] - e));
    worst_rel = std::max(worst_rel, best / (2e-5 * absS + 4e-6 * scale + 1e-300));
    if (!(best <= 2e-5 * absS + 4e-6 * scale)) {
        char d[240]; snprintf(d, 240, "%s: sum S - S0/2 - S_top = %.9g but 0.5*dq^2*sum rho*W/s = %.9g (sum|S| = %.6g)", what.c_str(), sumS - 0.5 * S[0] - S[top], e, absS);
        R.violate(keyb + "/parseval", kase, d);
    }
    // cut-off: 0 <= S_fc <= S, power smaller and non-negative
    for (double fcrel : {0.3, 3.0}) {
        const float fc = (float)(fcrel * rig.f->getFreqRuler()->scale("Hertz") * rig.f->getFreqRuler()->max() / 4);
        rig.f->updateCSR(fc);
        const float* Sc = rig.f->getCSRSpectrum(); const double Pc = rig.f->getCSRPower()[0];
        bool bad = false;
        for (unsigned k = 0; k < N; k++) if (passive && (!(Sc[k] >= 0) || !(Sc[k] <= S[k] * (1 + 4 * EPS)))) bad = true;
        if (passive && (bad || !(Pc >= 0) || !(Pc <= P * (1 + 1e-6)))) {
            R.violate(keyb + "/cutoff", kase, what + " fc=" + mcx::fstr(fc) + " P_fc=" + mcx::fstr(Pc) + " P=" + mcx::fstr(P));
        }
    }
}

int main(int argc, char** argv) {
    R.init(argc, argv, "C07", "C07_csr"); quiet();
    R.rule = "one evaluation = updateCSR + wakePotential of the real field for (N, Re Z basis vector or model, profile e_i / e_i+e_j / dense); "
             "distinct = FNV of case + spectrum; trivial = Re Z basis vector above N/2 with zero spectrum";
    R.sample_every = 3000;
    const bool T = true /* the wide lattices run in both tiers */; const bool D = R.thorough(); (void)D;
    std::vector<unsigned> ns = T ? std::vector<unsigned>{4, 5, 6, 8, 12} : std::vector<unsigned>{4, 5, 6};
    std::vector<unsigned> Ns = T ? std::vector<unsigned>{16, 24, 30, 32, 33, 37, 48, 64, 96, 127, 128} : std::vector<unsigned>{16, 24, 33};
    if (D) { ns.push_back(16); ns.push_back(24); Ns.push_back(255); Ns.push_back(256); Ns.push_back(384); }
    if (R.warm) { for (unsigned N : Ns) { Rig r(Cfg{4, 1, N, 0, {0}}); r.f->wakePotential(); } return 0; }
    for (unsigned n : ns) for (unsigned N : Ns) {
        if (N < 2 * n) continue;
        Cfg c{n, 1, N, 0, {0}, 6.f};
        // (a) basis of Re Z (with an imaginary part that must not matter)
        for (unsigned k0 = 0; k0 < N; k0++) for (int imv = 0; imv < 2; imv++) {
            // the energy axis' cell size must not enter the spectrum: vary its extent (main() only builds equal extents, the API allows others)
            c.pext = (k0 % 3 == 0) ? 6.f : (k0 % 3 == 1) ? 4.5f : 8.f;
            std::string kase = mcx::Desc()("part", "basis")("n", n)("N", N)("k", k0)("im", imv).f("pext", c.pext).str();
            if (!R.mine(kase)) continue;
            if (R.out_of_time()) { R.not_completed = kase; goto done; }
            Rig rig(c);
            std::vector<impedance_t> Z(N, impedance_t(0, 0)); Z[k0] = impedance_t(1.f, imv ? -0.7f : 0.f); rig.set_z(Z);
            std::string keyb = std::string("C07/") + (N & (N - 1) ? (N % 2 ? "N-odd" : "N-composite") : "N-pow2");
            for (unsigned i = 0; i < n; i++) for (unsigned j = i; j < n; j++) {
                std::vector<float> rho(n, 0.f); rho[i] += 1.f; if (j != i) rho[j] += 1.f;
                check(rig, kase, "rho=e" + std::to_string(i) + (j != i ? "+e" + std::to_string(j) : ""), rho, keyb, true, k0 > N / 2);
            }
        }
        // (b) impedance models and a signed (non-passive) control, dense asymmetric profiles
        for (int model = 0; model < 6; model++) for (int place = 0; place < 3; place++) {
            // the bunch in bucket 0 (plain padding, as the radiation field is built), or alone in bucket 1 / 2 of a spaced train
            Cfg cp = c; cp.pext = 6.f;
            if (place) { cp.spacing = n + place; cp.buckets = {(uint32_t)place}; if (N < place * cp.spacing + n) continue; }
            std::string kase = mcx::Desc()("part", "model")("n", n)("N", N)("model", model)("bucket", place).str();
            if (!R.mine(kase)) continue;
            if (R.out_of_time()) { R.not_completed = kase; goto done; }
            Rig rig(cp);
            std::shared_ptr<Impedance> m;
            const float fmax = 1e12f;
            switch (model) {
            case 0: m = std::make_shared<FreeSpaceCSR>(N, 2.7e6f, fmax); break;
            case 1: m = std::make_shared<ParallelPlatesCSR>(N, 2.7e6f, fmax, 0.032); break;
            case 2: m = std::make_shared<ResistiveWall>(N, 2.7e6f, fmax, 110.4, 5.8e7, 0.0, 0.016); break;
            case 3: m = std::make_shared<CollimatorImpedance>(N, fmax, 0.016, 0.004); break;
            case 4: { Impedance sum = FreeSpaceCSR(N, 2.7e6f, fmax) + ResistiveWall(N, 2.7e6f, fmax, 110.4, 5.8e7, 0.0, 0.016); m = std::make_shared<Impedance>(sum); break; }
            default: { std::vector<impedance_t> z(N); for (unsigned k = 0; k < N; k++) z[k] = k <= N / 2 ? impedance_t(std::fabs(std::sin(1.1f * k)) * 50.f, std::cos(0.3f * k) * 80.f) : impedance_t(0, 0); m = std::make_shared<Impedance>(z, fmax); }
            }
            rig.set_z(m->impedance());
            std::string keyb = "C07/model=" + std::to_string(model) + (place ? "/bucket>0" : "");
            for (int v = 0; v < 4; v++) {
                std::vector<float> rho(n); for (unsigned x = 0; x < n; x++) rho[x] = 0.1f + std::fabs(std::sin(0.8f * x * (v + 1) + 0.3f * v)) + (x == (unsigned)v % n ? 1.5f : 0.f);
                check(rig, kase, "dense=" + std::to_string(v), rho, keyb, true, false);
            }
        }
    }
    // (c) several bunches on one radiation field (spacing 0, as main() builds it): every bunch's power is the integral of ITS
    //     spectrum, and both equal what a single-bunch field reports for the same profile
    for (unsigned n : ns) for (unsigned N : Ns) for (unsigned nb = 2; nb <= 3; nb++) for (int model = 0; model < 3; model++) {
        if (N < 2 * n) continue;
        std::string kase = mcx::Desc()("part", "multi")("n", n)("N", N)("nb", nb)("model", model).str();
        if (!R.mine(kase)) continue;
        if (R.out_of_time()) { R.not_completed = kase; goto done; }
        std::vector<impedance_t> z(N);
        for (unsigned k = 0; k < N; k++) z[k] = k <= N / 2 ? (model == 0 ? impedance_t(1.f, 0.f) : model == 1 ? impedance_t(30.f * std::pow((float)k + 0.5f, 1.f / 3), 17.f * std::pow((float)k + 0.5f, 1.f / 3)) : impedance_t(std::fabs(std::sin(1.1f * k)) * 50.f, std::cos(0.3f * k) * 80.f)) : impedance_t(0, 0);
        std::vector<std::vector<float>> rho(nb, std::vector<float>(n));
        for (unsigned b = 0; b < nb; b++) for (unsigned x = 0; x < n; x++) rho[b][x] = 0.1f * (b + 1) + std::fabs(std::sin(0.8f * x * (b + 1) + 0.3f * model)) + (x == b % n ? 1.5f : 0.f);
        std::vector<std::vector<float>> S1(nb); std::vector<float> P1(nb);
        for (unsigned b = 0; b < nb; b++) { Rig one(Cfg{n, 1, N, 0, {0}}); one.set_z(z); one.set_profile(0, rho[b]); one.f->updateCSR(0); S1[b].assign(one.f->getCSRSpectrum(), one.f->getCSRSpectrum() + N); P1[b] = one.f->getCSRPower()[0]; }
        std::vector<uint32_t> bk; for (unsigned b = 0; b < nb; b++) bk.push_back(nb - 1 - b);
        Rig rig(Cfg{n, nb, N, 0, bk}); rig.set_z(z);
        for (unsigned b = 0; b < nb; b++) rig.set_profile(b, rho[b]);
        rig.f->updateCSR(0);
        const float* S = rig.f->getCSRSpectrum(); const float* P = rig.f->getCSRPower(); const double df = rig.f->getFreqRuler()->delta();
        R.eval(kase, mcx::fnv(S, 4 * N * nb, mcx::fnv(P, 4 * nb, mcx::fnvs(kase))), false);
        for (unsigned b = 0; b < nb; b++) {
            double sum = 0, mag = 0, dmax = 0; for (unsigned k = 0; k < N; k++) { sum += S[b * N + k]; mag += std::fabs(S[b * N + k]); dmax = std::max(dmax, (double)std::fabs(S[b * N + k] - S1[b][k])); }
            if (!(std::fabs(P[b] - df * sum) <= 2e-6 * df * mag)) { char d[200]; snprintf(d, 200, "bunch %u of %u: power %.9g but df*sum(spectrum) = %.9g", b, nb, P[b], df * sum); R.violate("C07/multi-bunch/power-is-not-integral-of-own-spectrum", kase, d); }
            if (!(dmax <= 2e-6 * mag) || !(std::fabs(P[b] - P1[b]) <= 2e-6 * std::fabs(P1[b]))) { char d[200]; snprintf(d, 200, "bunch %u of %u: power %.9g, single-bunch field %.9g; max spectrum difference %.3g", b, nb, P[b], P1[b], dmax); R.violate("C07/multi-bunch/differs-from-single-bunch-field", kase, d); }
        }
    }
done:
    R.numbers["worst_parseval_residual_over_tol"] = worst_rel;
    R.bound_done("n x N x {Re Z = e_k (+ imaginary part), all k < N} x {e_i, e_i+e_j : all i <= j}; 6 impedance models x {bucket 0, 1, 2} x 4 dense profiles; 2 cut-offs each; 2- and 3-bunch radiation fields x 3 impedances vs single-bunch fields");
    return R.finish();
}
