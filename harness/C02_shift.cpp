// C02 (beyond the weight enumeration of W_weights): index logic of the real KickMap / RotationMap.
//  part=whole : every whole-cell displacement k in [-(n-1), n-1], both axes, all orders: output == input moved by k,
//               compared bit for bit on every cell, zeros flowing in (uniform field and per-row mixed fields)
//  part=poly  : displacement k+f (dyadic lattice of f plus extreme fractions): monomials y^d, d < order, are reproduced
//               in the interior
//  part=rot   : RotationMap (precomputed and on-the-fly): interior weights sum to one, angle 0 is the identity,
//               bilinear monomials x^a y^b (a,b < order) are reproduced at the rotated coordinates
#include "inov.hpp"
using namespace inov;
static mcx::Report R;

static inline size_t IDX(bool yaxis, unsigned n, unsigned row, unsigned pos) { return yaxis ? (size_t)row * n + pos : (size_t)pos * n + row; }

static void part_whole(const std::vector<unsigned>& ns, const std::vector<unsigned>& nbs) {
    for (unsigned n : ns) for (unsigned nb : nbs) for (unsigned it = 1; it <= 4; it++) for (int yaxis = 0; yaxis < 2; yaxis++) for (int mode = 0; mode < 3; mode++)
    for (int k = -(int)(n - 1); k <= (int)(n - 1); k++) {
        if (mode == 2 && n > 17) continue;     // mode 2: whole-cell rows between rows with a fractional displacement, in one field
        std::string kase = mcx::Desc()("part", "whole")("n", n)("nb", nb)("it", it)("axis", yaxis ? "y" : "x")("mode", mode == 2 ? "between-fractional-rows" : mode ? "mixed" : "uniform")("k", k).str();
        if (!R.mine(kase)) continue;
        if (R.out_of_time()) { R.not_completed = kase; return; }
        set_size(n, nb);
        std::vector<float> dall((size_t)n * n * nb);
        for (size_t i = 0; i < dall.size(); i++) dall[i] = 1.0f + 0.001f * (float)((i * 7919u) % 1009u) + (i % 3 == 0 ? 0.5f : 0.f);   // positive, irregular, different in every bunch
        // "the same values, bit for bit" holds for any value: in every second case the data also holds negative, very small, very large and
        // subnormal values (a whole-cell shift multiplies by an exact one and adds exact zeros)
        if ((k + (int)n + mode + (int)it) % 2 == 0) for (size_t i = 0; i < dall.size(); i++) {
            switch ((i * 31u + (unsigned)(k + (int)n)) % 7u) { case 1: dall[i] = -dall[i]; break; case 2: dall[i] *= 1e-30f; break; case 3: dall[i] *= -3e-9f; break;
                case 4: dall[i] *= 1e30f; break; case 5: dall[i] *= 1e-40f; break; default: break; }
        }
        auto in = mkps_shift(n, 12, 0, 0, even_filling(nb), dall.data()), out = mkps_shift(n, 12, 0, 0, even_filling(nb));
        KickMap km(in, out, (SourceMap::InterpolationType)it, false, yaxis ? KickMap::Axis::y : KickMap::Axis::x, nullptr);
        // uniform: every row displaced by k; mixed: row r displaced by k, k-1, k+1, ... (all whole, clipped to the same range);
        // y-kicks carry one field per bunch (bunch b: displaced by one cell less per bunch), x-kicks share the field of bunch 0
        std::vector<float> off((size_t)n * nb); std::vector<int> krall((size_t)n * nb);
        for (unsigned b = 0; b < nb; b++) for (unsigned r = 0; r < n; r++) { int kk = (mode ? k + (int)(r % 3) - 1 : k) - (yaxis ? (int)b : 0); kk = std::max(-(int)(n - 1), std::min((int)n - 1, kk)); krall[b * n + r] = kk; off[b * n + r] = (float)kk + ((mode == 2 && r % 2 == 1) ? (r % 4 == 1 ? 0.375f : -0.625f) : 0.f); }
        km.swapOffset(off); km.apply();
        R.eval(kase, mcx::fnv(out->getData(), 4 * (size_t)n * n * nb, mcx::fnvs(kase)), k == 0 && !mode);
        for (unsigned b = 0; b < nb; b++) {
        const float* o = out->getData() + (size_t)b * n * n; const float* d = dall.data() + (size_t)b * n * n; const int* kr = krall.data() + (size_t)b * n;
        for (unsigned r = 0; r < n; r++) {
            if (mode == 2 && r % 2 == 1) continue;      // (the fractional rows are the polynomial part's subject)
            size_t bad = 0; std::string first;
            for (unsigned x = 0; x < n; x++) {
                int src = (int)x + kr[r];
                float want = (src >= 0 && src < (int)n) ? d[IDX(yaxis, n, r, src)] : 0.f;
                float got = o[IDX(yaxis, n, r, x)];
                bool ok = (want == 0.f) ? (got == 0.f) : (memcmp(&want, &got, 4) == 0);
                if (!ok) { if (!bad) { char b[120]; snprintf(b, 120, "row %u cell %u: got %.9g want %.9g (displacement %d)", r, x, got, want, kr[r]); first = b; } bad++; }
            }
            if (bad) {
                // whole shifts beyond the half grid are outside what the offset table can encode: reported under their own key
                const int kk = kr[r]; const char* cls = (kk >= (int)(n / 2)) ? "k>=n/2" : (kk < -(int)(n / 2)) ? "k<-n/2" : "representable";
                R.violate(std::string("C02/KickMap/whole-shift/") + cls, kase, (nb > 1 ? "bunch " + std::to_string(b) + " " : std::string()) + first + " (" + std::to_string(bad) + " cells)");
            }
        }
        }
    }
    R.bound_done("whole: n x bunches x it x axis x {uniform, mixed rows} x every whole displacement in [-(n-1), n-1], bitwise");
}

static void part_poly(const std::vector<unsigned>& ns, int lattice) {
    std::vector<float> fr; for (int j = 0; j < lattice; j++) fr.push_back((float)j / lattice);
    const float extra[] = {5.9604645e-8f, 1e-6f, 0.99999994f, 0.999999f, 0.333333343f, 0.707106769f, 3e-4f, 5e-3f, 0.9995f, 0.995f};
    for (float e : extra) fr.push_back(e);
    for (unsigned n : ns) for (unsigned it = 1; it <= 4; it++) for (int yaxis = 0; yaxis < 2; yaxis++) for (int k = -2; k <= 2; k++) for (size_t fi = 0; fi < fr.size(); fi++) {
        std::string kase = mcx::Desc()("part", "poly")("n", n)("it", it)("axis", yaxis ? "y" : "x")("k", k)("fi", fi).str();
        if (!R.mine(kase)) continue;
        if (R.out_of_time()) { R.not_completed = kase; return; }
        const float a = (float)k + fr[fi];
        set_size(n, 1);
        const int cc = (it - 1) / 2; const double c0 = (n - 1) / 2.0;
        for (unsigned d = 0; d < it; d++) {
            std::vector<float> dat((size_t)n * n);
            for (unsigned r = 0; r < n; r++) for (unsigned y = 0; y < n; y++) dat[IDX(yaxis, n, r, y)] = (float)std::pow((double)y - c0, (double)d) * (1.f + 0.1f * r);
            auto in = mkps_shift(n, 12, 0, 0, {1.f}, dat.data()), out = mkps_shift(n, 12, 0, 0, {1.f});
            KickMap km(in, out, (SourceMap::InterpolationType)it, false, yaxis ? KickMap::Axis::y : KickMap::Axis::x, nullptr);
            std::vector<float> off(n, a); km.swapOffset(off); km.apply();
            const float* o = out->getData();
            R.eval(kase + " d=" + std::to_string(d), mcx::fnv(o, 4 * (size_t)n * n, mcx::fnvs(kase) + d), a == 0.f);
            // the map adds the offset to n/2 in single precision: that sum is the displacement it can resolve
            const float aeff = ((float)(n / 2) + a) - (float)(n / 2);
            const int kf = (int)std::floor(aeff); double worst = 0;
            for (unsigned r = 0; r < n; r++) for (unsigned y = 0; y < n; y++) {
                int lo = (int)y + kf - cc, hi = (int)y + kf - cc + (int)it - 1;     // source cells of destination y
                if (lo < 0 || hi > (int)n - 1) continue;
                double want = std::pow((double)y + (double)a - c0, (double)d) * (1.0 + 0.1f * r);
                double err = std::fabs((double)o[IDX(yaxis, n, r, y)] - want), tol = 2e-5 * std::pow(n / 2.0 + 2, (double)d) * 2;
                worst = std::max(worst, err / tol);
                if (err > tol) {
                    char b[200]; snprintf(b, 200, "degree %u row %u cell %u: got %.9g want %.9g (offset %.9g)", d, r, y, o[IDX(yaxis, n, r, y)], want, a);
                    R.violate("C02/KickMap/polynomial/it=" + std::to_string(it), kase, b); r = n; break;
                }
            }
            R.maxnum("worst_poly_error_over_tol", worst);
        }
    }
    R.bound_done("poly: n x it x axis x k{-2..2} x dyadic lattice of " + std::to_string(lattice) + " fractions (+10 extreme or small) x monomials of degree < it");
}

static void part_rot(const std::vector<unsigned>& ns, const std::vector<float>& angles) {
    for (unsigned n : ns) for (unsigned it = 1; it <= 4; it++) for (int pre = 0; pre < 2; pre++) for (size_t ai = 0; ai < angles.size(); ai++) for (int sh = 0; sh < 2; sh++) {
        std::string kase = mcx::Desc()("part", "rot")("n", n)("it", it)("precomputed", pre)("ai", ai)("shift", sh).str();
        if (!R.mine(kase)) continue;
        if (R.out_of_time()) { R.not_completed = kase; return; }
        const float ang = angles[ai];
        set_size(n, 1);
        const float sx = sh ? 1 : 0, sy = sh ? -1 : 0;
        for (unsigned da = 0; da < it; da++) for (unsigned db = 0; db < it; db++) {
            std::vector<float> dat((size_t)n * n);
            auto in = mkps_shift(n, 12, sx, sy, {1.f}), out = mkps_shift(n, 12, sx, sy, {1.f});
            const double zx = in->getAxis(0)->zerobin(), zy = in->getAxis(1)->zerobin();
            for (unsigned x = 0; x < n; x++) for (unsigned y = 0; y < n; y++) in->getData()[(size_t)x * n + y] = (float)(std::pow(x - zx, (double)da) * std::pow(y - zy, (double)db));
            RotationMap rm(in, out, n, n, ang, (SourceMap::InterpolationType)it, false, pre ? n * n : 0, nullptr);
            rm.apply();
            const float* o = out->getData();
            R.eval(kase + " deg=" + std::to_string(da) + "," + std::to_string(db), mcx::fnv(o, 4 * (size_t)n * n, mcx::fnvs(kase) + da * 7 + db), ang == 0.f && da + db == 0);
            const double c = std::cos(-ang), s = std::sin(-ang); const int cc = (it - 1) / 2;
            for (unsigned x = 0; x < n; x++) for (unsigned y = 0; y < n; y++) {
                // source position in cell units, exactly as a rotation by -angle about the zero bins
                double xs = c * (x - zx) - s * (y - zy) + zx, ys = s * (x - zx) + c * (y - zy) + zy;
                int x1 = (int)std::floor(xs), y1 = (int)std::floor(ys);
                // stay one extra cell away from where floor() could disagree between float and double
                if (x1 - cc - 1 < 0 || y1 - cc - 1 < 0 || x1 - cc + (int)it > (int)n - 1 || y1 - cc + (int)it > (int)n - 1) continue;
                if (std::fabs(xs - std::round(xs)) < 1e-3 || std::fabs(ys - std::round(ys)) < 1e-3) { if (ang != 0.f) continue; }
                double want = std::pow(xs - zx, (double)da) * std::pow(ys - zy, (double)db);
                double tol = 4e-5 * std::pow(n / 2.0 + 2, (double)(da + db)) * 2;
                                double err = std::fabs((double)o[(size_t)x * n + y] - want);
                if (err > tol) {
                    char b[200]; snprintf(b, 200, "monomial x^%u y^%u cell (%u,%u): got %.9g want %.9g (angle %.6g)", da, db, x, y, o[(size_t)x * n + y], want, ang);
                    R.violate(std::string("C02/RotationMap/") + (da + db == 0 ? "weights-sum" : "polynomial") + "/it=" + std::to_string(it), kase, b);
                    x = n; break;
                }
            }
        }
    }
    R.bound_done("rot: n x it x {precomputed, on the fly} x angles x 2 grid shifts x bilinear monomials of degree < it per axis");
}

// part=reuse : histories of ONE KickMap object that is given a new displacement field again and again (as the wake kick is, every step):
// after every swapOffset()+apply() the output equals, bit for bit, that of a fresh map given the same field - whatever the object was used for before.
static std::vector<float> reuse_field(int k, unsigned n, unsigned nb, bool yaxis) {
    std::vector<float> f((size_t)n * (yaxis ? nb : 1));
    for (size_t i = 0; i < f.size(); i++) { const int r = (int)(i % n), b = (int)(i / n);
        switch (k) {
            case 0: f[i] = 0.f; break;                                                  // no displacement at all
            case 1: f[i] = (float)((r + b) % 7 - 3); break;                             // whole cells, some rows zero
            case 2: f[i] = 0.25f * (float)((r + 2 * b) % 5) - 0.5f; break;              // fractions, some rows zero
            case 3: f[i] = (r % 2) ? 1.5f + b : 0.f; break;                             // every second row exactly zero
            case 4: f[i] = (r % 3 == 0) ? (float)n + 2.f : (r % 3 == 1 ? -1.f : 0.f); break;   // some rows kicked beyond the grid
            default: f[i] = (r % 2 ? 1.f : -1.f) * ((float)(n / 2) - 0.25f * (r % 4)); break;  // about half the grid, either sign
        } }
    return f;
}
static void part_reuse(const std::vector<unsigned>& ns, unsigned depth) {
    const int NF = 7;   // field 6: a field of one block only on a multi-bunch y-map (what it does to the later bunches is the caller's business and not judged - what comes after it is)
    for (unsigned n : ns) for (unsigned nb = 1; nb <= 2; nb++) for (unsigned it = 1; it <= 4; it++) for (int yaxis = 0; yaxis < 2; yaxis++) {
        uint64_t total = 1; for (unsigned i = 0; i < depth; i++) total *= NF;
        for (uint64_t code = 0; code < total; code++) {
            std::vector<int> h(depth); { uint64_t c = code; for (unsigned i = 0; i < depth; i++) { h[depth - 1 - i] = c % NF; c /= NF; } }
            bool rep = false; for (unsigned i = 1; i < depth; i++) if (h[i] == h[i - 1]) rep = true;
            if (rep) continue;      // the same field twice in a row adds nothing
            { bool shortf = false; for (int v : h) if (v == 6) shortf = true; if (shortf && !(yaxis && nb > 1)) continue; if (h[depth - 1] == 6) continue; }
            std::string hs; for (int v : h) hs += char('0' + v);
            std::string kase = mcx::Desc()("part", "reuse")("n", n)("nb", nb)("it", it)("axis", yaxis ? "y" : "x")("fields", hs).str();
            if (!R.mine(kase)) continue;
            if (R.out_of_time()) { R.not_completed = kase; return; }
            set_size(n, nb);
            std::vector<float> dall((size_t)n * n * nb); for (size_t i = 0; i < dall.size(); i++) dall[i] = 0.5f + 0.001f * (float)((i * 7919u) % 1009u) - (i % 5 == 0 ? 1.f : 0.f);
            auto in = mkps_shift(n, 12, 0, 0, even_filling(nb), dall.data()), out = mkps_shift(n, 12, 0, 0, even_filling(nb));
            KickMap km(in, out, (SourceMap::InterpolationType)it, false, yaxis ? KickMap::Axis::y : KickMap::Axis::x, nullptr);
            for (unsigned step = 0; step < depth; step++) {
                if (h[step] == 6) { auto sf = reuse_field(1, n, 1, true); km.swapOffset(sf); km.apply(); continue; }
                auto f = reuse_field(h[step], n, nb, yaxis); auto f2 = f;
                km.swapOffset(f); km.apply();
                std::vector<float> got(out->getData(), out->getData() + dall.size());
                auto in2 = mkps_shift(n, 12, 0, 0, even_filling(nb), dall.data()), out2 = mkps_shift(n, 12, 0, 0, even_filling(nb));
                KickMap fresh(in2, out2, (SourceMap::InterpolationType)it, false, yaxis ? KickMap::Axis::y : KickMap::Axis::x, nullptr);
                fresh.swapOffset(f2); fresh.apply();
                R.eval(kase + " step=" + std::to_string(step), mcx::fnv(got.data(), 4 * got.size(), mcx::fnvs(kase) + step), step == 0);
                if (memcmp(got.data(), out2->getData(), 4 * got.size()) != 0) {
                    size_t bad = 0; for (size_t i = 0; i < got.size(); i++) if (memcmp(&got[i], out2->getData() + i, 4) != 0) bad++;
                    R.violate(std::string("C02/KickMap/reused-map-differs-from-fresh/after-field-") + char('0' + (step ? h[step - 1] : h[step])), kase,
                              "after fields " + hs.substr(0, step + 1) + ": " + std::to_string(bad) + " cells differ from a fresh map given field " + char('0' + h[step]));
                    break;
                }
            }
        }
    }
    R.bound_done("reuse: n x nb{1,2} x it x axis x every sequence of " + std::to_string(depth) + " displacement fields out of 6 (zero, whole, fractional, every second row zero, rows beyond the grid, half the grid, a one-block field on a multi-bunch map) on ONE map object; after each, output == fresh map, bitwise");
}

int main(int argc, char** argv) {
    R.init(argc, argv, "C02", "C02_shift"); quiet();
    R.rule = "one evaluation = one application of the real KickMap/RotationMap; distinct = FNV of case + output grid; trivial = zero displacement / angle 0 on constant data";
    R.sample_every = 3000;
    const bool T = true /* the wide lattices run in both tiers */; const bool D = R.thorough(); (void)D;
    part_whole(D ? std::vector<unsigned>{8, 9, 16, 17, 32, 33, 64, 65} : std::vector<unsigned>{8, 9, 16, 17, 32, 33}, D ? std::vector<unsigned>{1, 2, 3, 4} : std::vector<unsigned>{1, 2, 3});
    part_poly(D ? std::vector<unsigned>{12, 13, 16, 33, 64} : std::vector<unsigned>{12, 13, 16, 33}, D ? 1024 : 256);
    part_rot(T ? std::vector<unsigned>{12, 13, 16} : std::vector<unsigned>{12, 13}, T ? std::vector<float>{0.f, 0.05f, -0.1f, 0.2617994f, 0.7853982f, 1.5707964f} : std::vector<float>{0.f, 0.1f, -0.2617994f});
    part_reuse(T ? std::vector<unsigned>{8, 9} : std::vector<unsigned>{8}, D ? 4 : 3);
    return R.finish();
}
