// C01: every transport step conserves the charge of a distribution inside the grid.
// Decided by column sums of the real operators: a linear map conserves the plain sum of ALL data (signed or
// not) iff every column of its matrix sums to one; the matrix is obtained by applying the real map to unit
// impulses (one impulse per row - rows are independent, which C08 checks differentially).
//  part=kick : generic KickMap, both axes, per-row displacement alphabet rotated through all rows
//  part=ctor : RFKickMap (linear, sinusoidal), DriftMap, WakePotentialMap built through their own constructors
//  part=fp   : FokkerPlanckMap, all FP types x stencils x zero-bin positions x damping decrements; Identity
#include "inov.hpp"
#include <cstdlib>
using namespace inov;

static mcx::Report R;

// impulse-per-row test of a kick map whose per-row offsets are read back from the map itself
static void check_kick(const std::string& kase, KickMap& km, psptr in, psptr out, bool yaxis, unsigned n, unsigned nb, unsigned it,
                       const std::string& keybase) {
    const int cc = (it - 1) / 2;
    const float* off = km.getForce();
    const float lim = float(3 * n);   // any finite displacement: up to the grid size a source cell and its image can both be interior; beyond it nothing is interior (and nothing judged)
    float* din = in->getData(); float* dout = out->getData();
    double worst = 0;
    for (unsigned c = 0; c < n; c++) {
        std::fill(din, din + (size_t)n * n * nb, 0.f);
        for (unsigned b = 0; b < nb; b++) for (unsigned r = 0; r < n; r++) {
            size_t idx = yaxis ? ((size_t)b * n + r) * n + c : ((size_t)b * n + c) * n + r;
            din[idx] = 1.f;
        }
        km.apply();
        uint64_t h = mcx::fnv(dout, sizeof(float) * n * n * nb, mcx::fnvs(kase));
        R.eval(kase + " c=" + std::to_string(c), h, false);
        for (unsigned b = 0; b < nb; b++) for (unsigned r = 0; r < n; r++) {
            // x-kicks share bunch 0's field by design (the drift is the same for every bunch); y-kick maps whose kick is
            // bunch independent (RF) declare that through _lastbunch and share the table of bunch 0 as well
            float a = yaxis ? off[std::min(b, (unsigned)km._lastbunch) * n + r] : off[r];
            if (!(a <= lim && a >= -lim)) continue;
            int k = (int)std::floor(((float)(n / 2) + a) - (float)(n / 2));   // displacement as resolved in single precision
            int lo = (int)c - k - (int)(it - 1) + cc, hi = (int)c - k + cc;   // destination cells of source c
            bool interior = c >= 1 && c + 2 <= n && lo >= 1 && hi <= (int)n - 2;
            double s = 0; bool fin = true;
            for (unsigned x = 0; x < n; x++) {
                size_t idx = yaxis ? ((size_t)b * n + r) * n + x : ((size_t)b * n + x) * n + r;
                s += dout[idx]; fin = fin && std::isfinite(dout[idx]);
            }
            if (!fin) { R.violate(keybase + "/non-finite", kase, "row " + std::to_string(r) + " bunch " + std::to_string(b)); continue; }
            if (!interior) continue;
            double e = std::fabs(s - 1);
            if (e > worst) worst = e;
            if (e > 8 * EPS) {
                char d[200]; snprintf(d, 200, "bunch=%u row=%u source=%u offset=%.9g column_sum=%.9g", b, r, c, a, s);
                R.violate(keybase + "/column-sum", kase, d);
            }
        }
    }
    R.maxnum("worst_kick_column_sum_error", worst);
    // linearity cross-check on dense signed and non-negative data supported where source and image are interior
    for (int sign = 0; sign < 2; sign++) {
        std::fill(din, din + (size_t)n * n * nb, 0.f);
        double tot = 0, mag = 0;
        for (unsigned b = 0; b < nb; b++) for (unsigned r = 0; r < n; r++) {
            float a = yaxis ? off[std::min(b, (unsigned)km._lastbunch) * n + r] : off[r];
            if (!(a <= lim && a >= -lim)) continue;
            int k = (int)std::floor(((float)(n / 2) + a) - (float)(n / 2));   // displacement as resolved in single precision
            for (unsigned c = 1; c + 2 <= n; c++) {
                int lo = (int)c - k - (int)(it - 1) + cc, hi = (int)c - k + cc;
                // a time-dependent map applies the NEXT queue entry, not the offsets read here: two more cells of clearance (its noise is far below a cell)
                const int extra = dynamic_cast<DynamicRFKickMap*>(&km) ? 2 : 0;
                if (lo < 1 + extra || hi > (int)n - 2 - extra) continue;
                float v = std::sin(1.7f * c + 0.9f * r + b);
                if (!sign) v = v * v;
                size_t idx = yaxis ? ((size_t)b * n + r) * n + c : ((size_t)b * n + c) * n + r;
                din[idx] = v; tot += v; mag += std::fabs(v);
            }
        }
        km.apply();
        double s = sum(dout, (size_t)n * n * nb);
        if (sign && !std::getenv("C01_NO_ODDNESS")) {   // signed data is moved like non-negative data: the negated blob gives the negated image (time-independent maps only)
            if (dynamic_cast<DynamicRFKickMap*>(&km) == nullptr) {
                std::vector<float> img(dout, dout + (size_t)n * n * nb);
                for (size_t i = 0; i < img.size(); i++) din[i] = -din[i];
                km.apply();
                bool odd = true; for (size_t i = 0; i < img.size(); i++) if (dout[i] != -img[i] && !(dout[i] == 0 && img[i] == 0)) { odd = false; break; }
                if (!odd) R.violate(keybase + "/signed-data-treated-differently", kase, "the negated blob does not give the negated image");
                for (size_t i = 0; i < img.size(); i++) { din[i] = -din[i]; dout[i] = img[i]; }
            }
        }
        // conservation "up to single-precision rounding" is relative to the data: the step is homogeneous.  Scaling the data by a power of two is exact in
        // binary floating point, so the image must be the scaled image bit for bit (no underflow: |data| >= 1e-20 here), whatever the magnitude of the data
        if (dynamic_cast<DynamicRFKickMap*>(&km) == nullptr && mag > 0) {
            std::vector<float> img(dout, dout + (size_t)n * n * nb), base(din, din + (size_t)n * n * nb);
            const float scales[3] = {5.9604645e-8f /* 2^-24 */, 8.6736174e-19f /* 2^-60 */, 1073741824.f /* 2^30 */};
            for (float sc : scales) {
                for (size_t i = 0; i < base.size(); i++) din[i] = base[i] * sc;
                km.apply();
                size_t bad = 0; for (size_t i = 0; i < img.size(); i++) if (dout[i] != img[i] * sc) bad++;
                R.eval(kase + (sign ? " blob=signed" : " blob=nonneg") + " scale=" + mcx::fstr(sc), mcx::fnv(dout, sizeof(float) * n * n * nb, mcx::fnvs(kase)), false);
                if (bad) { char d[160]; snprintf(d, 160, "data scaled by %.3g: %zu cells of the image are not the scaled image", sc, bad); R.violate(keybase + "/not-homogeneous", kase, d); }
            }
            for (size_t i = 0; i < base.size(); i++) { din[i] = base[i]; dout[i] = img[i]; }
        }
        R.eval(kase + (sign ? " blob=signed" : " blob=nonneg"), mcx::fnv(dout, sizeof(float) * n * n * nb, mcx::fnvs(kase)), mag == 0);
        if (std::fabs(s - tot) > 8 * EPS * (mag + 1)) {
            char d[200]; snprintf(d, 200, "sum before=%.9g after=%.9g (sum|data|=%.6g)", tot, s, mag);
            R.violate(keybase + "/blob-sum", kase, d);
        }
    }
}

static void part_kick(const std::vector<unsigned>& ns, const std::vector<unsigned>& nbs) {
    for (unsigned n : ns) for (unsigned nb : nbs) for (unsigned it = 1; it <= 4; it++) for (int yaxis = 0; yaxis < 2; yaxis++) {
        auto A = alphabet(n);
        for (unsigned shift = 0; shift < A.size(); shift++) {
            std::string kase = mcx::Desc()("part", "kick")("n", n)("nb", nb)("it", it)("axis", yaxis ? "y" : "x")("shift", shift).str();
            if (!R.mine(kase)) continue;
            if (R.out_of_time()) { R.not_completed = kase; return; }
            set_size(n, nb);
            auto in = mkps_shift(n, 12, 0, 0, even_filling(nb)), out = mkps_shift(n, 12, 0, 0, even_filling(nb));
            KickMap km(in, out, (SourceMap::InterpolationType)it, false, yaxis ? KickMap::Axis::y : KickMap::Axis::x, nullptr);
            std::vector<float> off(n * nb);
            for (unsigned b = 0; b < nb; b++) for (unsigned r = 0; r < n; r++)
                off[b * n + r] = A[(r + (yaxis ? b * 7 : 0) + shift) % A.size()];
            km.swapOffset(off);
            std::string key = std::string("C01/KickMap.") + (yaxis ? "y" : "x") + "/it=" + std::to_string(it) + "/nb" + (nb > 1 ? ">1" : "=1");
            check_kick(kase, km, in, out, yaxis, n, nb, it, key);
        }
    }
    R.bound_done("kick: n x nb x it x axis x every rotation of the displacement alphabet x every impulse position");
}

static void part_ctor(const std::vector<unsigned>& ns, const std::vector<unsigned>& nbs) {
    const char* kinds[] = {"rf-linear", "rf-sin", "drift", "wake", "dynrf-linear", "dynrf-sin"};
    for (unsigned n : ns) for (unsigned nb : nbs) for (unsigned it = 1; it <= 4; it++) for (int kind = 0; kind < 6; kind++)
    for (int var = 0; var < 3; var++) for (int sh = 0; sh < 2; sh++) {
        std::string kase = mcx::Desc()("part", "ctor")("map", kinds[kind])("n", n)("nb", nb)("it", it)("var", var)("shift", sh).str();
        if (!R.mine(kase)) continue;
        if (R.out_of_time()) { R.not_completed = kase; return; }
        set_size(n, nb);
        const float sx = sh ? 2 : 0, sy = sh ? -1 : 0;
        auto in = mkps_shift(n, 12, sx, sy, even_filling(nb)), out = mkps_shift(n, 12, sx, sy, even_filling(nb));
        auto itt = (SourceMap::InterpolationType)it;
        const double steps[3] = {24, 50, 200};
        const float angle = 2 * M_PI / steps[var];
        std::string key = std::string("C01/") + kinds[kind] + "/it=" + std::to_string(it) + "/nb" + (nb > 1 ? ">1" : "=1");
        if (kind == 0) {
            RFKickMap m(in, out, angle, 5e8f, itt, false, nullptr);
            check_kick(kase, m, in, out, true, n, nb, it, key);
        } else if (kind == 1) {
            // voltages such that the slope at the synchronous phase matches tan(angle) per cell (as main derives it)
            const double frf = 5e8, bl2phase = 1e-3 / physcons::c * frf * 2 * M_PI;
            const double dE = in->getDelta(1) * 6.1e5, revpart = 0.01;
            const double Veff = std::tan(angle) * dE / (in->getDelta(0) * revpart * bl2phase);
            const double V0 = 0.1 * Veff, VRF = std::sqrt(Veff * Veff + V0 * V0);
            RFKickMap m(in, out, (float)revpart, (float)VRF, (float)frf, (float)V0, itt, false, nullptr);
            check_kick(kase, m, in, out, true, n, nb, it, key);
        } else if (kind == 2) {
            std::vector<float> slip = {angle, var == 1 ? 0.3f * angle : 0.f, var == 2 ? -0.2f * angle : 0.f};
            auto mp = with_scratch(slip, [&](const std::vector<float>& sl) { return std::unique_ptr<DriftMap>(new DriftMap(in, out, sl, 1.3e9f, itt, false, nullptr)); }); DriftMap& m = *mp;
            check_kick(kase, m, in, out, false, n, nb, it, key);
        } else if (kind >= 4) {
            // time-dependent RF kick (deterministic phase modulation; noise would add nothing to conservation but randomness to the check): every apply() of the impulse test runs with another queue entry
            const double frf = 5e8, bl2phase = 1e-3 / physcons::c * frf * 2 * M_PI, dE = in->getDelta(1) * 6.1e5, revpart = 0.01;
            const double Veff = std::tan(angle) * dE / (in->getDelta(0) * revpart * bl2phase), V0 = 0.1 * Veff, VRF = std::sqrt(Veff * Veff + V0 * V0);
            const unsigned queue = n + 8;
            if (kind == 4) { DynamicRFKickMap m(in, out, n, n, angle, revpart, frf, 0.f, 0.f, 0.01f * (var + 1), 0.11, queue, itt, false, nullptr); check_kick(kase, m, in, out, true, n, nb, it, key); }
            else { DynamicRFKickMap m(in, out, n, n, revpart, VRF, frf, V0, 0.f, 0.f, 0.01f * (var + 1), 0.11, queue, itt, false, nullptr); check_kick(kase, m, in, out, true, n, nb, it, key); }
        } else {
            std::vector<uint32_t> buckets; for (unsigned b = 0; b < nb; b++) buckets.push_back(nb - 1 - b);
            const unsigned spacing = n + 3, need = (nb - 1) * (nb > 1 ? spacing : 0) + n;
            const unsigned N = std::max((var == 0 ? 32u : var == 1 ? 30u : 37u) * (nb > 1 ? 2 : 1), need + (var == 2 ? 1 - need % 2 : need % 2) + 2 * var);   // long enough for the whole train
            std::shared_ptr<Impedance> z = std::make_shared<ConstImpedance>(N, 1e12f, impedance_t(var == 2 ? 300.f : 120.f, var == 1 ? 80.f : 0.f));
            ElectricField f(in, z, buckets, nb > 1 ? spacing : 0, nullptr, 9e6, 0.01f, 3e-3, 1.3e9, 4.7e-4, 1e-9);
            in->updateXProjection();
            WakePotentialMap m(in, out, &f, itt, false, nullptr);
            m.update();
            // scale the real wake into the 0.5 .. 3 cell range (the strength is a free parameter of the physics)
            float mx = 0; for (unsigned i = 0; i < n * nb; i++) mx = std::max(mx, std::fabs(m.getForce()[i]));
            if (mx > 0) { std::vector<float> o(m.getForce(), m.getForce() + n * nb); for (float& v : o) v *= (1.5f + var) / mx; m.swapOffset(o); }
            check_kick(kase, m, in, out, true, n, nb, it, key);
        }
    }
    R.bound_done("ctor: RFKickMap(linear,sinusoidal), DriftMap, WakePotentialMap, DynamicRFKickMap(linear,sinusoidal; modulation) x n x nb x it x 3 parameter sets x 2 grid shifts");
}

static void part_fp(const std::vector<unsigned>& ns, const std::vector<int>& shifts) {
    for (unsigned n : ns) for (int dt = 3; dt <= 4; dt++) for (int type = 0; type < 4; type++) for (int ie = 0; ie < 7; ie++) for (int sy : shifts)
    for (unsigned nb = 1; nb <= 2; nb++) {
        std::string kase = mcx::Desc()("part", "fp")("n", n)("nb", nb)("stencil", dt)("fptype", type)("e1idx", ie)("shifty", sy).str();
        if (!R.mine(kase)) continue;
        if (R.out_of_time()) { R.not_completed = kase; return; }
        set_size(n, nb);
        auto in = mkps_shift(n, 12, 0, sy, even_filling(nb)), out = mkps_shift(n, 12, 0, sy, even_filling(nb));
        const double d = in->getDelta(1);
        // the last three lie beyond the stable range of the explicit scheme (e1/cell^2 > 1/2): the step is useless for physics there, but charge conservation is
        // an algebraic property of its coefficients and holds all the same
        const double e1s[7] = {1e-4, 1e-3, 1e-2, std::min(0.05, 0.45 * d * d), 0.6 * d * d, 1.0 * d * d, 2.3 * d * d};
        const double e1 = e1s[ie];
        FokkerPlanckMap m(in, out, n, n, (FokkerPlanckMap::FPType)type, FokkerPlanckMap::FPTracking::none, e1,
                          (FokkerPlanckMap::DerivationType)dt, nullptr);
        float* din = in->getData(); float* dout = out->getData();
        std::fill(din, din + (size_t)n * n * nb, 0.f);
        for (unsigned b = 0; b < nb; b++) for (unsigned x = 0; x < n; x++) din[((size_t)b * n + x) * n + x] = 1.f;
        m.apply();
        R.eval(kase, mcx::fnv(dout, sizeof(float) * n * n * nb, mcx::fnvs(kase)), type == 0);
        const double zb = in->getAxis(1)->zerobin();
        const bool damp = (type == 1 || type == 3), diff = (type == 2 || type == 3);
        const double tolr = 8 * EPS * (1 + (diff ? 4 * e1 / (d * d) : 0) + (damp ? e1 * n : 0));
        std::string key = "C01/FokkerPlanck/stencil=" + std::to_string(dt) + "/fptype=" + std::to_string(type);
        for (unsigned b = 0; b < nb; b++) for (unsigned c = 4; c + 5 <= n; c++) {
            double s = 0; for (unsigned y = 0; y < n; y++) s += dout[((size_t)b * n + c) * n + y];
            const bool band = std::fabs((double)c - zb) <= 3.0;
            double tol = tolr + ((band && dt == 4 && damp) ? e1 : 0);
            double e = std::fabs(s - 1);
            R.maxnum(band ? "worst_fp_column_error_in_band_over_e1" : "worst_fp_column_error_outside_band", band ? e / e1 : e);
            if (!(e <= tol)) {
                char dd[240]; snprintf(dd, 240, "bunch=%u column=%u zero_bin=%.3f e1=%.4g column_sum-1=%.4g tol=%.3g (%s seam band)", b, c, zb, e1, s - 1, tol, band ? "inside" : "outside");
                R.violate(key + (band ? "/band" : "/column-sum"), kase, dd);
            }
        }
        // column sums decide conservation for ALL data only if the step is linear in the data: signed data must be treated like non-negative data.
        // (a) the negated impulses give exactly the negated result; (b) dense signed data in which whole columns hold only negative cells:
        //     M(s) must equal M(s+) - M(s-) of its positive and negative parts (up to rounding)
        {
            std::vector<float> pos(dout, dout + (size_t)n * n * nb);
            for (size_t i = 0; i < (size_t)n * n * nb; i++) din[i] = -din[i];
            m.apply();
            bool odd = true; for (size_t i = 0; i < pos.size(); i++) if (dout[i] != -pos[i] && !(dout[i] == 0 && pos[i] == 0)) { odd = false; break; }
            if (!odd) R.violate(key + "/signed-data-treated-differently", kase, "the negated impulses do not give the negated result");
            std::vector<float> sp((size_t)n * n * nb, 0.f), sm(sp), rp, rm;
            for (unsigned b = 0; b < nb; b++) for (unsigned x = 2; x + 2 < n; x++) for (unsigned y = 2; y + 2 < n; y++) {
                float v = std::sin(0.9f * x + 1.3f * y + b) ; if (x % 3 == 1) v = -std::fabs(v) - 0.1f; if (x % 3 == 2) v = std::fabs(v);   // every third column: negative cells only
                (v >= 0 ? sp : sm)[((size_t)b * n + x) * n + y] = std::fabs(v);
            }
            std::copy(sp.begin(), sp.end(), din); m.apply(); rp.assign(dout, dout + sp.size());
            std::copy(sm.begin(), sm.end(), din); m.apply(); rm.assign(dout, dout + sp.size());
            for (size_t i = 0; i < sp.size(); i++) din[i] = sp[i] - sm[i];
            m.apply();
            double worst = 0; for (size_t i = 0; i < sp.size(); i++) worst = std::max(worst, (double)std::fabs(dout[i] - (rp[i] - rm[i])));
            if (!(worst <= 64 * EPS * (1 + 4 * e1 / (d * d) + e1 * n))) { char dd[200]; snprintf(dd, 200, "signed data: M(s) differs from M(s+) - M(s-) by %.4g", worst); R.violate(key + "/signed-data-treated-differently", kase, dd); }
            // homogeneity: data scaled by a power of two gives the scaled image bit for bit
            std::vector<float> img(dout, dout + sp.size());
            const float scales[3] = {5.9604645e-8f, 8.6736174e-19f, 1073741824.f};
            for (float sc : scales) {
                for (size_t i = 0; i < sp.size(); i++) din[i] = (sp[i] - sm[i]) * sc;
                m.apply();
                size_t bad = 0; for (size_t i = 0; i < img.size(); i++) if (dout[i] != img[i] * sc) bad++;
                R.eval(kase + " scale=" + mcx::fstr(sc), mcx::fnv(dout, sizeof(float) * n * n * nb, mcx::fnvs(kase)), false);
                if (bad) { char dd[160]; snprintf(dd, 160, "data scaled by %.3g: %zu cells of the image are not the scaled image", sc, bad); R.violate(key + "/not-homogeneous", kase, dd); }
            }
        }
    }
    // Identity: bit-exact copy
    for (unsigned n : ns) for (unsigned nb = 1; nb <= 3; nb++) {
        std::string kase = mcx::Desc()("part", "identity")("n", n)("nb", nb).str();
        if (!R.mine(kase)) continue;
        set_size(n, nb);
        auto in = mkps_shift(n, 12, 0, 0, even_filling(nb)), out = mkps_shift(n, 12, 0, 0, even_filling(nb));
        float* din = in->getData(); float* dout = out->getData();
        for (size_t i = 0; i < (size_t)n * n * nb; i++) { din[i] = std::sin(0.37f * i) ; dout[i] = -7; }
        Identity m(in, out, nullptr); m.apply();
        R.eval(kase, mcx::fnv(dout, sizeof(float) * n * n * nb), false);
        if (memcmp(din, dout, sizeof(float) * n * n * nb) != 0) R.violate("C01/Identity/not-a-copy", kase, "output differs from input");
    }
    R.bound_done("fp: n x stencil{3,4} x FPType{0..3} x 7 damping decrements (3 beyond the stable range) x zero-bin shifts x nb{1,2}; Identity n x nb{1..3}");
}

int main(int argc, char** argv) {
    R.init(argc, argv, "C01", "C01_conserve"); quiet();
    R.rule = "one evaluation = one application of a real map to an impulse-per-row (or dense blob) input; distinct = FNV hash of case + output grid; "
             "trivial = FPType none / empty blob";
    R.sample_every = 2000;
    const bool T = true /* the wide lattices run in both tiers */; const bool D = R.thorough(); (void)D;
    std::vector<unsigned> ns = T ? std::vector<unsigned>{8, 9, 12, 16, 17, 32} : std::vector<unsigned>{8, 9};
    std::vector<unsigned> nbs = T ? std::vector<unsigned>{1, 2, 3, 4} : std::vector<unsigned>{1, 2};
    if (D) { ns.push_back(33); ns.push_back(48); nbs.push_back(5); }      // thorough: larger grids, more bunches
    part_kick(ns, nbs);
    part_ctor(T ? std::vector<unsigned>{12, 16, 17, 32} : std::vector<unsigned>{12, 13}, T ? std::vector<unsigned>{1, 2, 3} : nbs);
    std::vector<unsigned> fpn; if (T) for (unsigned n = 12; n <= (D ? 129u : 65u); n++) fpn.push_back(n);
    for (unsigned n : {255u, 256u, 257u, 300u}) fpn.push_back(n);        // around and beyond 256 cells (8-bit indices) else fpn = {12, 16, 17};
    part_fp(fpn, T ? std::vector<int>{-3, -2, -1, 0, 1, 2, 3} : std::vector<int>{0, 2, -1});
    return R.finish();
}
