// C03 (API level): the centroid rotates by 2*pi/steps per step and the orbit closes.
// The real RFKickMap (linear, and sinusoidal with bunch length, time step and drift derived as main() derives them, at two RF voltages) and DriftMap are chained over three grids
// exactly as main() chains them (Identity wake, RF kick, drift, Identity Fokker-Planck); the centre of charge is evaluated after every step.
// Invariants at every state of every trajectory (a = 2*pi/steps, R = rotation q' = q cos - p sin, p' = q sin + p cos):
//   |c_k - R(k a) c_0| <= (0.6 a + a^2 + 2e-3)|c_0| + 0.02 cell      (exact rotation up to the first-order splitting error)
//   accumulated phase after one period within 2 a^2 + 0.01 of 2 pi; closure |c_steps - c_0| <= (a + 2e-3)|c_0| + 0.02 cell
//   the trajectory is independent of where the grid is centred (same physical start on shifted grids, within 0.05 cell)
#include "inov.hpp"
using namespace inov;
static mcx::Report R;

struct Traj { std::vector<double> q, p, charge; };

static double centroid(const PhaseSpace& ps, unsigned n, double& cq, double& cp, unsigned bunch = 0) {
    const float* d = ps.getData() + (size_t)bunch * n * n; double s = 0, sq = 0, sp = 0;
    for (unsigned x = 0; x < n; x++) for (unsigned y = 0; y < n; y++) { double v = d[(size_t)x * n + y]; s += v; sq += v * coord(ps, 0, x); sp += v * coord(ps, 1, y); }
    cq = sq / s; cp = sp / s;
    return s;
}

static Traj run(unsigned n, unsigned steps, float sx, float sy, unsigned it, double q0, double p0, double w, bool linear, bool& finite, unsigned nb = 1, unsigned bsel = 0, double VRF = 1e6) {
    set_size(n, nb);
    const std::vector<float> fill = even_filling(nb);
    const float pq = 12;
    // scales as main(): Meter scale = natural bunch length, ElectronVolt scale = absolute energy spread
    const double E0 = 1.3e9, sE = 4.7e-4, dE = sE * E0, frev = 9e6, H = 50, fs = 4.5e4;
    const double Rb = physcons::c / (2 * M_PI * frev), V0 = physcons::e * std::pow(E0 / physcons::me, 4) / (3 * physcons::epsilon0 * Rb);
    const double Veff = std::sqrt(VRF * VRF - V0 * V0), bl = physcons::c * dE / H / (frev * frev) / Veff * fs, fRF = frev * H;
    const double dt = 1.0 / (fs * steps), revpart = frev * dt;
    const float angle = 2 * M_PI / steps;
    const float qc = -sx * pq / (n - 1), pc = -sy * pq / (n - 1), h = pq / 2;
    std::vector<float> dat((size_t)n * n * nb);
    auto g1 = mkps(qc - h, qc + h, pc - h, pc + h, fill, nullptr, 1, bl, dE);
    // every bunch holds the blob; bunches other than the selected one are mirrored through the origin (their data differs, their orbit is the mirrored one)
    for (unsigned b = 0; b < nb; b++) { const double sg = (b == bsel) ? 1 : -1;
        for (unsigned x = 0; x < n; x++) for (unsigned y = 0; y < n; y++) dat[((size_t)b * n + x) * n + y] = (float)std::exp(-0.5 * ((coord(*g1, 0, x) - sg * q0) * (coord(*g1, 0, x) - sg * q0) + (coord(*g1, 1, y) - sg * p0) * (coord(*g1, 1, y) - sg * p0) * 1.3) / (w * w)); }
    std::copy(dat.begin(), dat.end(), g1->getData());
    auto g2 = mkps(qc - h, qc + h, pc - h, pc + h, fill, dat.data(), 1, bl, dE), g3 = mkps(qc - h, qc + h, pc - h, pc + h, fill, dat.data(), 1, bl, dE);
    auto itt = (SourceMap::InterpolationType)it;
    Identity wm(g1, g2, nullptr);
    std::unique_ptr<RFKickMap> rf;
    if (linear) rf.reset(new RFKickMap(g2, g1, angle, (float)fRF, itt, false, nullptr));
    // the sinusoidal map is given the RF voltage itself (its parameter is V_RF; it derives the synchronous phase asin(V0/V_RF) from it): the focusing
    // slope V_RF cos(phi_s) = Veff is what the bunch length, the time step and the drift are derived from
    else rf.reset(new RFKickMap(g2, g1, (float)revpart, (float)VRF, (float)fRF, (float)V0, itt, false, nullptr));
    std::vector<float> slip = {angle, 0.f, 0.f};
    auto drp = with_scratch(slip, [&](const std::vector<float>& sl) { return std::unique_ptr<DriftMap>(new DriftMap(g1, g3, sl, (float)E0, itt, false, nullptr)); }); DriftMap& dr = *drp;
    Identity fp(g3, g1, nullptr);
    Traj t; double cq, cp; t.charge.push_back(centroid(*g1, n, cq, cp, bsel)); t.q.push_back(cq); t.p.push_back(cp);
    finite = true;
    for (unsigned k = 0; k < steps; k++) {
        wm.apply(); rf->apply(); dr.apply(); fp.apply();
        t.charge.push_back(centroid(*g1, n, cq, cp, bsel)); t.q.push_back(cq); t.p.push_back(cp);
        if (!std::isfinite(cq) || !std::isfinite(cp)) { finite = false; break; }
    }
    return t;
}

int main(int argc, char** argv) {
    R.init(argc, argv, "C03", "C03_rotation"); quiet();
    R.rule = "one evaluation = one trajectory of one synchrotron period through the real RFKickMap+DriftMap chain (invariants checked after every step); "
             "distinct = FNV of case + trajectory; trivial = none (all starts are off-centre)";
    R.sample_every = 200;
    const bool T = true /* the wide lattices run in both tiers */; const bool D = R.thorough(); (void)D;
    std::vector<unsigned> stepss = T ? std::vector<unsigned>{16, 24, 40, 64, 100, 200, 400} : std::vector<unsigned>{24, 64};
    std::vector<unsigned> ns = T ? std::vector<unsigned>{32, 33, 48, 64, 65, 96} : std::vector<unsigned>{32, 33};
    if (D) { stepss.push_back(800); ns.push_back(128); }     // thorough: a finer time step and a finer grid
    // very fine time steps (the program's default is 1000 per period; users go to 10000 and beyond): angle 6e-3 ... 3e-4 rad, displacements of a thousandth of a cell
    for (unsigned st : {1000u, 4000u, 10000u}) stepss.push_back(st);
    if (D) stepss.push_back(30000);
    std::vector<float> shifts = T ? std::vector<float>{-3, 0, 2} : std::vector<float>{0, 2};
    std::vector<unsigned> its = T ? std::vector<unsigned>{2, 3, 4} : std::vector<unsigned>{3, 4};
    const double starts[][2] = {{1.0, 0.0}, {0.0, -1.2}, {-0.8, 0.7}, {0.5, 1.0}, {-1.1, -0.4}, {0.9, -0.9}, {0.0, 0.6}, {-0.6, 0.0}, {0.3, 0.25}};
    const unsigned nstarts = T ? 9 : 3;
    double worst_step = 0, worst_phase = 0, worst_shift = 0;
    for (unsigned steps : stepss) for (unsigned n : ns) for (unsigned it : its) for (unsigned si = 0; si < nstarts; si++) for (int wi = 0; wi < 2; wi++) for (int model = 0; model < 3; model++) for (unsigned bv = 0; bv < 3; bv++) {
        // bunch axis: single bunch; the second of two bunches; the third of three (every bunch of a train rotates like a single bunch)
        const unsigned nb = bv + 1, bsel = bv;
        if (bv && (si != 0 || wi != 0)) continue;
        if (steps >= 1000 && ((n != 32 && n != 33) || it != 4 || si > 1 || wi || bv || model == 2)) continue;   // (fine time steps: two grids, cubic interpolation, two starts, both RF models)
        const bool linear = model == 0;
        // model 2: sinusoidal RF with a voltage close to the radiation loss per turn (45.5 kV for this ring): synchronous phase 0.23 rad instead of 0.05
        // (lower still, the curvature of the voltage over the width of the blob moves the centre of the rotation by more than the tolerance: not a small bunch any more)
        const double VRF = model == 2 ? 2e5 : 1e6;
        if (model == 2 && (bv || wi || it < 3)) continue;   // (linear interpolation widens the blob within the period; the low-voltage case needs the bunch to stay short)
        // small amplitudes for the sinusoidal model; at the low voltage the bunch is longer in RF phase (0.1 rad per natural bunch length) and the curvature
        // term tan(phi_s) phi^2/2 larger: "small" is 0.15 natural units there
        const double scale = linear ? 1.0 : model == 2 ? 0.15 : 0.25;
        const double q0 = starts[si][0] * scale, p0 = starts[si][1] * scale, w = model == 2 ? 0.35 : wi ? 0.9 : 0.6;   // low voltage: a short bunch (the curvature of the voltage over the blob shifts the centre of rotation by (V0/Veff) x phase-per-length x <q^2>/2)
        std::string kase = mcx::Desc()("steps", steps)("n", n)("it", it)("start", si)("width", wi)("rf", linear ? "linear" : model == 2 ? "sin-lowV" : "sin")("bunch", std::to_string(bsel) + "of" + std::to_string(nb)).str();
        if (!R.mine(kase)) continue;
        if (R.out_of_time()) { R.not_completed = kase; goto done; }
        const double a = 2 * M_PI / steps, dq = 12.0 / (n - 1);
        // sinusoidal voltage: its curvature over the extent of the blob, V0/Veff x (RF phase per natural length) x <q^2>/2, shifts the fixed point of the motion; the
        // centroid circles around that point, i.e. deviates from the rotation about the origin by up to twice the shift (4e-4 at 1 MV, 3e-3 at 200 kV)
        double fixshift = 0;
        if (!linear) { const double E0 = 1.3e9, dE = 4.7e-4 * E0, frev = 9e6, fs = 4.5e4, Rb = physcons::c / (2 * M_PI * frev), V0 = physcons::e * std::pow(E0 / physcons::me, 4) / (3 * physcons::epsilon0 * Rb);
                       const double Veff = std::sqrt(VRF * VRF - V0 * V0), ph = 2 * M_PI * dE * fs / (frev * Veff); fixshift = V0 / Veff * ph * (w * w + q0 * q0 + p0 * p0) / 2; }
        Traj ref; bool have_ref = false;
        for (float sx : shifts) for (float sy : shifts) {
            bool fin; Traj t = run(n, steps, sx, sy, it, q0, p0, w, linear, fin, nb, bsel, VRF);
            const std::string sub = kase + " shift=" + mcx::fstr(sx) + "," + mcx::fstr(sy);
            R.eval(sub, mcx::fnv(t.q.data(), 8 * t.q.size(), mcx::fnv(t.p.data(), 8 * t.p.size(), mcx::fnvs(sub))), false);
            const std::string key = std::string("C03/") + (linear ? "linear" : model == 2 ? "sin-lowV" : "sin") + (bv ? "/bunch>0" : "") + ((sx != 0 || sy != 0) ? (sx != sy ? "/shifted-unequal" : "/shifted-equal") : "/centred");
            if (!fin) { R.violate(key + "/non-finite", kase, "centroid not finite, shift " + mcx::fstr(sx) + "," + mcx::fstr(sy)); continue; }
            const double c0q = t.q[0], c0p = t.p[0], r0 = std::hypot(c0q, c0p);
            // the statement is about distributions that stay inside the grid: low interpolation orders smear the charge until it reaches the border;
            // a trajectory is followed up to the first step at which more than 1e-4 of the charge has left
            // (single-precision rounding alone moves the sum by about 2.5e-8 per step - measured: +9e-5 after 4000 steps, nothing lost - so the threshold grows with the step count)
            const double qthr = 1e-4 * std::max(1.0, steps / 1000.0);
            unsigned valid = steps; for (unsigned k = 1; k <= steps; k++) if (std::fabs(t.charge[k] / t.charge[0] - 1) > qthr) { valid = k - 1; break; }
            if (valid < steps) {
                R.addnum("sum_trajectories_cut_at_border", 1);
                // cubic interpolation does not smear a blob of radius <= 1.2 and width <= 0.9 to a border 4.8 or more units away within HALF a period
                // (on the unchanged tree the earliest loss with it is at 96 % of the period, on a 32-cell grid; the lower orders lose charge earlier):
                // such an early loss is itself a finding - a blob pushed out of the grid must not silently shorten its own check
                if (it == 4 && 2 * (valid + 1) <= steps) { char d[200]; snprintf(d, 200, "shift (%g,%g): more than 1e-4 of the charge has left the grid at step %u of %u", sx, sy, valid + 1, steps); R.violate(key + "/charge-leaves-grid", kase, d); continue; }
            }
            double phase = 0; bool bad = false;
            for (unsigned k = 1; k <= valid && !bad; k++) {
                const double wq = c0q * std::cos(k * a) - c0p * std::sin(k * a), wp = c0q * std::sin(k * a) + c0p * std::cos(k * a);
                const double err = std::hypot(t.q[k] - wq, t.p[k] - wp), tol = (0.6 * a + a * a + 2e-3) * r0 + 0.02 * dq + 2 * fixshift;
                worst_step = std::max(worst_step, err / tol);
                if (!(err <= tol)) {
                    char d[240]; snprintf(d, 240, "shift (%g,%g) step %u: centroid (%.5f, %.5f), exact rotation (%.5f, %.5f), error %.4g > %.4g", sx, sy, k, t.q[k], t.p[k], wq, wp, err, tol);
                    R.violate(key + "/not-the-rotation", kase, d); bad = true; break;
                }
                double dphi = std::atan2(t.p[k], t.q[k]) - std::atan2(t.p[k - 1], t.q[k - 1]);
                while (dphi <= -M_PI) dphi += 2 * M_PI; while (dphi > M_PI) dphi -= 2 * M_PI;
                phase += dphi;
            }
            if (bad) continue;
            if (valid < steps) { if (!have_ref) { ref = t; have_ref = true; } continue; }   // full-period invariants need the whole period
            const double perr = std::fabs(phase - 2 * M_PI), ptol = 2 * a * a + 0.01;
            worst_phase = std::max(worst_phase, perr / ptol);
            if (!(perr <= ptol)) { char d[200]; snprintf(d, 200, "shift (%g,%g): phase accumulated over one period = %.5f rad (2 pi = %.5f), off by %.4g > %.4g", sx, sy, phase, 2 * M_PI, perr, ptol); R.violate(key + "/phase-advance", kase, d); }
            const double cl = std::hypot(t.q[steps] - c0q, t.p[steps] - c0p);
            if (!(cl <= (a + 2e-3) * r0 + 0.02 * dq)) { char d[200]; snprintf(d, 200, "shift (%g,%g): |c_steps - c_0| = %.4g", sx, sy, cl); R.violate(key + "/orbit-does-not-close", kase, d); }
            if (!have_ref) { ref = t; have_ref = true; }
            else for (unsigned k = 0; k <= steps; k++) {
                const double d = std::hypot(t.q[k] - ref.q[k], t.p[k] - ref.p[k]);
                worst_shift = std::max(worst_shift, d / (0.05 * dq));
                if (!(d <= 0.05 * dq)) { char b[200]; snprintf(b, 200, "step %u: centroid on the grid shifted by (%g,%g) differs from the first grid by %.4g (> 0.05 cell)", k, sx, sy, d); R.violate(key + "/depends-on-grid-centre", kase, b); break; }
            }
        }
    }
done:
    R.numbers["worst_step_error_over_tol"] = worst_step; R.numbers["worst_phase_error_over_tol"] = worst_phase; R.numbers["worst_shift_dependence_over_tol"] = worst_shift;
    R.bound_done("steps x n x it x starts x 2 widths x {linear, sinusoidal, sinusoidal at V_RF = 4.4 V0} x {single bunch, 2nd of 2, 3rd of 3} x all (sx,sy) grid shifts, every step of one period");
    return R.finish();
}
