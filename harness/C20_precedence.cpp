// C20: command line beats config file beats documented default; legacy aliases in a config file act like the current names;
// options kept for compatibility are ignored; unknown options and malformed values are errors.  Reference: a boring three-level lookup.
#include "opts.hpp"
using namespace op;
static mcx::Report R;
static std::string DIR;

// reference model: expected getter images for a placement
static std::map<std::string, std::string> reference(const std::vector<Setting>& cli, const std::vector<Setting>& cfg) {
    std::map<std::string, std::string> e;
    for (size_t i = 0; i < NOPTS; i++) e[OPTS[i].name] = image(OPTS[i], OPTS[i].def);
    auto canon = [](const std::string& n) { for (auto& a : ALIASES) if (n == a.alias) return std::string(a.canonical); return n; };
    std::set<std::string> explicit_current;
    for (auto& s : cfg) if (find(s.name)) explicit_current.insert(s.name);
    for (auto& s : cfg) { const std::string c = canon(s.name); const Opt* o = find(c); if (!o) continue; if (c != s.name && explicit_current.count(c)) continue; e[c] = image(*o, s.value); }
    for (auto& s : cli) { const Opt* o = find(s.name); if (o) e[o->name] = image(*o, s.value); }
    // an alias and its current name both in the file (and the current name not on the command line): the statement leaves open which wins
    for (auto& a : ALIASES) { bool al = false, cu = false, oncli = false; for (auto& s : cfg) { if (s.name == a.alias) al = true; if (s.name == a.canonical) cu = true; }
        for (auto& s : cli) if (s.name == a.canonical) oncli = true; if (al && cu && !oncli) e.erase(a.canonical); }
    return e;
}
static void expect_ok(const std::string& kase, const std::string& keyb, const std::vector<Setting>& cli, const std::vector<Setting>& cfg) {
    std::string parent; if (!cfg.empty()) { parent = DIR + "/p.cfg"; write_cfg(parent, cfg); }
    ProgramOptions a; std::string err; int rc = parse(a, cli, parent, err);
    auto e = reference(cli, cfg);
    uint64_t h = mcx::fnvs(kase);
    if (rc != 1) { R.eval(kase, h, false); R.violate(keyb + "/legal-input-rejected", kase, "parse returned " + std::to_string(rc) + " " + err); return; }
    auto g = getters(a); for (auto& kv : g) h = mcx::fnvs(kv.second, h);
    R.eval(kase, h, cli.empty() && cfg.empty());
    for (auto& kv : e) if (g[kv.first] != kv.second) R.violate(keyb + "/getter=" + kv.first, kase, "effective " + g[kv.first] + " expected " + kv.second + " (cli: " + sstr(cli) + " cfg: " + sstr(cfg) + ")");
}
static void expect_error(const std::string& kase, const std::string& keyb, const std::vector<Setting>& cli, const std::vector<Setting>& cfg, const std::vector<std::string>& rawcfg = {}) {
    std::string parent; if (!cfg.empty() || !rawcfg.empty()) { parent = DIR + "/p.cfg"; write_cfg(parent, cfg); std::ofstream f(parent, std::ios::app); for (auto& l : rawcfg) f << l << "\n"; }
    ProgramOptions a; std::string err; int rc = parse(a, cli, parent, err);
    R.eval(kase, mcx::fnvs(kase + err), false);
    if (rc != -1) R.violate(keyb + "/accepted", kase, "parse returned " + std::to_string(rc) + " instead of raising an error (cli: " + sstr(cli) + " cfg: " + sstr(cfg) + ")");
    else if (err.empty()) R.violate(keyb + "/no-message", kase, "error without a message");
}

int main(int argc, char** argv) {
    R.init(argc, argv, "C20", "C20_precedence"); quiet();
    for (int i = 1; i < argc; i++) if (std::string(argv[i]) == "--dump-table") { for (size_t k = 0; k < NOPTS; k++) printf("%s\t%s\n", OPTS[k].name, OPTS[k].def); return 0; }
    R.rule = "one evaluation = one parse of the real ProgramOptions for an enumerated placement of options on command line / config file; distinct = FNV of case + all getters (or the error text); trivial = nothing given";
    R.sample_every = 500;
    DIR = tmpdir(R, "c20");
    const bool T = true /* the wide lattices run in both tiers */; const bool D = R.thorough(); (void)D;
    { std::string k = "nothing"; if (R.mine(k)) expect_ok(k, "C20/defaults", {}, {}); }
    // every option x {cli, cfg, cli+cfg different values} x 2 values
    for (size_t i = 0; i < NOPTS; i++) for (int v = 0; v < 2; v++) for (int pl = 0; pl < 3; pl++) {
        const Opt& o = OPTS[i]; const std::string val = v ? o.v2 : o.v1, other = v ? o.v1 : o.v2;
        std::string kase = std::string("single ") + o.name + " v=" + std::to_string(v) + " placement=" + (pl == 0 ? "cli" : pl == 1 ? "cfg" : "cli+cfg");
        if (!R.mine(kase)) continue;
        const std::string keyb = std::string("C20/precedence/") + (pl == 0 ? "cli" : pl == 1 ? "cfg" : "cli-over-cfg");
        if (pl == 0) expect_ok(kase, keyb, {{o.name, val}}, {}); else if (pl == 1) expect_ok(kase, keyb, {}, {{o.name, val}}); else expect_ok(kase, keyb, {{o.name, val}}, {{o.name, other}});
    }
    R.bound_done("every option x 2 values x {cli, cfg, cli+cfg}");
    // run_anyway (a switch that also takes a value; it is not written to a .cfg and has no place in the shared option table): the same three-level lookup
    {
        const char* vals[] = {"", "true", "false", "1", "0"};      // "" = not given
        for (int ci = 0; ci < 5; ci++) for (int fi = 0; fi < 5; fi++) {
            std::string kase = std::string("run_anyway cli='") + vals[ci] + "' cfg='" + vals[fi] + "'";
            if (!R.mine(kase)) continue;
            std::vector<Setting> cli, cfg; if (ci) cli.push_back({"run_anyway", vals[ci]}); if (fi) cfg.push_back({"run_anyway", vals[fi]});
            cli.push_back({"GridSize", "64"});      // a bystander after it: a value token must not be mistaken for something else
            std::string parent; if (!cfg.empty()) { parent = DIR + "/p.cfg"; write_cfg(parent, cfg); }
            ProgramOptions a; std::string err; int rc = parse(a, cli, parent, err);
            const bool want = ci ? (ci == 1 || ci == 3) : fi ? (fi == 1 || fi == 3) : false;
            R.eval(kase, mcx::fnvs(kase) + (rc == 1 ? (a.getForceRun() ? 2 : 1) : 0), ci == 0 && fi == 0);
            if (rc != 1) { R.violate("C20/precedence/run_anyway/legal-input-rejected", kase, "parse returned " + std::to_string(rc) + " " + err); continue; }
            if (a.getForceRun() != want || a.getGridSize() != 64) R.violate(std::string("C20/precedence/run_anyway/") + (ci && fi ? "cli-over-cfg" : ci ? "cli" : "cfg"), kase, std::string("getForceRun() = ") + (a.getForceRun() ? "true" : "false") + ", expected " + (want ? "true" : "false") + "; GridSize " + std::to_string(a.getGridSize()));
        }
        R.bound_done("run_anyway x {not given, true, false, 1, 0} on the command line x the same in the file");
    }
    // pairs: option a on the command line, option b in the file (and vice versa): no cross talk
    for (size_t i = 0; i < NOPTS; i++) for (size_t j = 0; j < NOPTS; j++) {
        if (i == j || (!T && (i + j) % 3 != 0)) continue;
        std::string kase = std::string("pair cli=") + OPTS[i].name + " cfg=" + OPTS[j].name;
        if (!R.mine(kase)) continue;
        if (R.out_of_time()) { R.not_completed = kase; goto done; }
        expect_ok(kase, "C20/precedence/pair", {{OPTS[i].name, OPTS[i].v2}}, {{OPTS[j].name, OPTS[j].v1}});
    }
    R.bound_done(T ? "all ordered pairs (one on the command line, one in the file)" : "every third ordered pair (one on the command line, one in the file)");
    // one-letter names on the command line act like the long names (alone and against the long name in the file)
    for (auto& sh : SHORTS) for (int v = 0; v < 2; v++) for (int pl = 0; pl < 2; pl++) {
        const Opt* o = find(sh.canonical); const std::string val = v ? o->v2 : o->v1, other = v ? o->v1 : o->v2;
        std::string kase = std::string("short ") + sh.sh + " v=" + std::to_string(v) + " placement=" + (pl ? "cli+cfg" : "cli");
        if (!R.mine(kase)) continue;
        expect_ok(kase, std::string("C20/short-name/") + (pl ? "cli-over-cfg" : "cli"), {{sh.sh, val}}, pl ? std::vector<Setting>{{sh.canonical, other}} : std::vector<Setting>{});
    }
    R.bound_done("every one-letter option name x 2 values x {cli, cli over cfg}");
    // triples (thorough): every unordered triple of options, each on the command line or in the file in all 8 placements
    if (D) {   // triples: thorough tier only
        for (size_t i = 0; i < NOPTS; i++) for (size_t j = i + 1; j < NOPTS; j++) for (size_t k = j + 1; k < NOPTS; k++) {
            std::string base = std::string("triple ") + OPTS[i].name + "+" + OPTS[j].name + "+" + OPTS[k].name;
            if (R.out_of_time()) { R.not_completed = base; goto done; }
            for (int pl = 0; pl < 8; pl++) {
                const std::string kase = base + " pl=" + std::to_string(pl);
                if (!R.mine(kase)) continue;
                std::vector<Setting> cli, cfg; const size_t ix[3] = {i, j, k};
                for (int m = 0; m < 3; m++) ((pl >> m) & 1 ? cli : cfg).push_back({OPTS[ix[m]].name, (ix[m] + pl) % 2 ? OPTS[ix[m]].v1 : OPTS[ix[m]].v2});
                expect_ok(kase, "C20/precedence/triple", cli, cfg);
            }
        }
        R.bound_done("all unordered triples of options x 8 placements (command line / file)");
    }
    // the documented special value /dev/null ("none") for the file-name options, on either source, with and without a config file being loaded
    for (const char* on : {"output", "InitialDistFile"}) for (int pl = 0; pl < 5; pl++) {
        std::string kase = std::string("devnull ") + on + " placement=" + std::to_string(pl);
        if (!R.mine(kase)) continue;
        std::vector<Setting> cli, cfg;
        if (pl == 0) cli = {{on, "/dev/null"}};                                          // command line only, no config file
        if (pl == 1) { cli = {{on, "/dev/null"}}; cfg = {{on, "old_run.h5"}}; }           // command line beats the name in the file
        if (pl == 2) cfg = {{on, "/dev/null"}};                                          // in the file
        if (pl == 3) { cli = {{on, "/dev/null"}}; cfg = {{"GridSize", "64"}}; }           // command line, an unrelated config file is loaded
        if (pl == 4) { cli = {{on, "new.h5"}}; cfg = {{on, "/dev/null"}}; }
        expect_ok(kase, std::string("C20/special-value-dev-null/") + on, cli, cfg);
    }
    // aliases: current name x {absent, cli, cfg, cli+cfg} x alias x {absent, cfg} (alias and current name both in the file: the current name wins)
    for (auto& al : ALIASES) for (int cur = 0; cur < 4; cur++) for (int ali = 0; ali < 2; ali++) for (int v = 0; v < 2; v++) {
        const Opt* o = find(al.canonical);
        std::string kase = std::string("alias ") + al.alias + " current=" + std::to_string(cur) + " alias-in-cfg=" + std::to_string(ali) + " v=" + std::to_string(v);
        if (!R.mine(kase)) continue;
        std::vector<Setting> cli, cfg;
        if (cur == 1 || cur == 3) cli.push_back({al.canonical, v ? o->v1 : o->v2});
        if (cur == 2 || cur == 3) cfg.push_back({al.canonical, v ? o->v2 : o->v1});
        if (ali) cfg.push_back({al.alias, v ? "777" : "4242"});
        expect_ok(kase, std::string("C20/alias/") + al.alias + (cur == 1 || cur == 3 ? "/current-on-cli" : cur == 2 ? "/current-in-cfg" : "/alone"), cli, cfg);
    }
    for (auto& al : ALIASES) { const Opt* o = find(al.canonical);
        std::string kase = std::string("alias ") + al.alias + " current-on-cli-with-default-value";
        if (R.mine(kase)) expect_ok(kase, std::string("C20/alias/") + al.alias + "/current-on-cli", {{al.canonical, o->def}}, {{al.alias, "4242"}}); }
    // an alias on the command line is an unknown option there
    for (auto& al : ALIASES) { std::string kase = std::string("alias-on-cli ") + al.alias; if (R.mine(kase)) expect_error(kase, "C20/unknown/alias-on-cli", {{al.alias, "5"}}, {}); }
    // compatibility options: any value, no effect
    for (auto ig : IGNORED) for (const char* val : {"0", "1", "7"}) for (int with = 0; with < 2; with++) {
        if (std::string(ig) == "SaveSourceMap" && std::string(val) == "7") continue;   // a bool: 7 is a malformed value, not an arbitrary legal one
        std::string kase = std::string("ignored ") + ig + "=" + val + " with-others=" + std::to_string(with);
        if (!R.mine(kase)) continue;
        std::vector<Setting> cfg = {{ig, val}}; std::vector<Setting> cli; if (with) { cfg.push_back({"GridSize", "64"}); cli.push_back({"outstep", "7"}); }
        expect_ok(kase, "C20/ignored-option", cli, cfg);
    }
    R.bound_done("aliases x placements; compatibility options");
    // malformed values for every typed option on both sources
    // src 0: command line; 1: config file; 2: config file while the command line gives the same option a proper value (the file's value is malformed all the same)
    for (size_t i = 0; i < NOPTS; i++) for (const char* bad : {"abc", "1e", "1,5", "", "0x", "64abc", "1.5x", "1..2", "3 4", "32.5", "1e3", "0x40", "-1", "maybe", "2"}) for (int src = 0; src < 3; src++) {
        const Opt& o = OPTS[i]; if (o.type == 's') continue;
        if (std::string(bad).empty() && o.type == 'b') continue;   // an empty value is boost's notation for a switch given without value
        {   // tokens that are malformed only for some types: fractions / exponents / hexadecimal for integers, a sign for unsigned, non-boolean words and numbers for switches
            const std::string b = bad; const bool integer = o.type == 'u' || o.type == 'i' || o.type == 'l', real = o.type == 'f' || o.type == 'd' || o.type == 'v';
            if ((b == "32.5" || b == "1e3") && !integer) continue;
            if (b == "0x40" && !integer && !real) continue;
            if (b == "-1" && o.type != 'u') continue;
            if ((b == "maybe" || b == "2") && o.type != 'b') continue;
            if ((b == "64abc" || b == "1.5x" || b == "1..2") && o.type == 'b') continue;
            if (b == "3 4" && (o.type == 'v' || o.type == 'b' || src >= 1)) continue;   // two tokens: legal for a list; in a file the line is one token and covered by the others
        }
        std::string kase = std::string("malformed ") + o.name + " value='" + bad + "' src=" + (src == 2 ? "cfg-under-cli" : src ? "cfg" : "cli");
        if (!R.mine(kase)) continue;
        const std::string bs = bad;
        const std::string cls = bs == "-1" ? "sign-for-unsigned" : (bs == "64abc" || bs == "1.5x" || bs == "1e" || bs == "0x") ? "number-then-garbage" : (bs == "32.5" || bs == "1e3") ? "fraction-or-exponent-for-integer"
                              : bs == "0x40" ? "hexadecimal" : (bs == "maybe" || bs == "2") ? "not-a-boolean" : bs.empty() ? "empty" : (bs == "1,5" || bs == "1..2" || bs == "3 4") ? "two-numbers" : "word";
        const std::string keyb = std::string("C20/malformed/") + (src == 2 ? "cfg-while-cli-gives-the-option/" : src ? "cfg/" : "cli/") + cls;
        if (src == 0) expect_error(kase, keyb, {{o.name, bad}}, {});
        else if (src == 1) expect_error(kase, keyb, {}, {}, {std::string(o.name) + "=" + bad});
        else expect_error(kase, keyb, {{o.name, o.v1}}, {}, {std::string(o.name) + "=" + bad});
    }
    // unknown names on both sources
    for (const char* nm : {"NoSuchOption", "gridsize", "Alpha0", "x"}) for (int src = 0; src < 2; src++) {
        std::string kase = std::string("unknown ") + nm + " src=" + (src ? "cfg" : "cli");
        if (!R.mine(kase)) continue;
        if (src == 0) expect_error(kase, "C20/unknown/cli", {{nm, "1"}}, {}); else expect_error(kase, "C20/unknown/cfg", {}, {}, {std::string(nm) + "=1"});
    }
    // missing / directory config path: parse() must say "do not run" (it prints the message itself)
    // (a missing file is only tolerated under the name the program falls back to when --config is NOT given; given explicitly, that name is a path like any other)
    for (const char* path : {"no_such_file.cfg", ".", "default.cfg"}) {
        std::string kase = std::string("config-path ") + path; if (!R.mine(kase)) continue;
        ProgramOptions a; std::string err; std::vector<std::string> av = {"inovesa", "--config", std::string(path) == "." ? DIR : std::string(path) == "default.cfg" ? std::string(path) : DIR + "/" + path};
        if (std::string(path) == "default.cfg") remove("default.cfg");
        std::vector<char*> cv; for (auto& s : av) cv.push_back(const_cast<char*>(s.c_str()));
        int rc; try { rc = a.parse((int)cv.size(), cv.data()) ? 1 : 0; } catch (...) { rc = -1; }
        R.eval(kase, mcx::fnvs(kase), false);
        if (rc == 1) R.violate("C20/missing-config/run-anyway", kase, "parse() returned true for an unusable config path");
    }
    // ... and the plain invocation: no --config at all and no default.cfg in the working directory is NOT an error (the fall-back file is optional)
    { std::string kase = "config-path (none given, no default.cfg present)";
      if (R.mine(kase)) { remove("default.cfg"); ProgramOptions a; std::vector<std::string> av = {"inovesa", "--GridSize", "64"}; std::vector<char*> cv; for (auto& s : av) cv.push_back(const_cast<char*>(s.c_str()));
        int rc; try { rc = a.parse((int)cv.size(), cv.data()) ? 1 : 0; } catch (...) { rc = -1; }
        R.eval(kase, mcx::fnvs(kase), false);
        if (rc != 1) R.violate("C20/no-config-given/refused", kase, "parse() returned " + std::to_string(rc) + " for an invocation without --config in a directory without default.cfg");
        else if (a.getGridSize() != 64) R.violate("C20/no-config-given/value-lost", kase, "GridSize " + std::to_string(a.getGridSize())); } }
    R.bound_done("malformed values x typed options x sources; unknown names; unusable config paths; no config given at all");
done:
    return R.finish();
}
