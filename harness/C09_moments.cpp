// C09: normalisation restores each bunch's share; moments are the true moments; copies report the same.
//  part=norm  : fillings (all compositions of 1 in quarters over <= 3 buckets, zeros included) x arbitrary non-negative data
//               (every impulse position, impulse pairs, dense) x n x extents -> populations == shares, total == 1, empty == 0
//  part=gauss : Gaussians / two-component mixtures on a (mean, sigma) lattice -> reported mean/rms == analytic (discretisation
//               bound), independent of the other bunches' data (bit-identical), per bunch
//  part=copy  : copy constructor / assignment: data, projections, integral, populations == ; moments after variance() ==
#include "inov.hpp"
using namespace inov;
static mcx::Report R;

static std::vector<std::vector<float>> fillings(unsigned nb) {
    std::vector<std::vector<float>> f;
    if (nb == 1) f.push_back({1.f});
    if (nb == 2) for (int a = 0; a <= 4; a++) f.push_back({a / 4.f, (4 - a) / 4.f});
    if (nb == 3) for (int a = 0; a <= 4; a++) for (int b = 0; a + b <= 4; b++) f.push_back({a / 4.f, b / 4.f, (4 - a - b) / 4.f});
    return f;
}
struct Ext { float qmin, qmax, pmin, pmax; const char* name; };
static const Ext EXTS[] = {{-6, 6, -6, 6, "sym6"}, {-4, 4, -4, 4, "sym4"}, {-3, 5, -5, 3, "shifted"}};

static void renorm(PhaseSpace& ps) {
    ps.updateXProjection(); ps.integrateAndNormalize(); ps.updateXProjection(); ps.updateYProjection(); ps.integrate();
    ps.variance(0); ps.variance(1);
}
static std::string fstr(const std::vector<float>& f) { std::string s; for (float v : f) s += (s.empty() ? "" : ",") + mcx::fstr(v); return s; }

static void check_pop(const std::string& kase, PhaseSpace& ps, const std::vector<float>& fill, unsigned n, const char* what) {
    auto pop = ps.getBunchPopulation(); double tot = 0;
    for (unsigned b = 0; b < fill.size(); b++) {
        tot += pop[b];
        double tol = 32 * EPS * std::max(fill[b], 0.01f);
        if (!(std::fabs(pop[b] - fill[b]) <= tol)) {
            char d[200]; snprintf(d, 200, "%s: bunch %u population %.9g, share %.9g", what, b, pop[b], fill[b]);
            R.violate(std::string("C09/normalize/population") + (fill.size() > 1 ? "/nb>1" : "/nb=1"), kase, d); return;
        }
        if (fill[b] == 0) {
            const float* d = ps.getData() + (size_t)b * n * n;
            for (size_t i = 0; i < (size_t)n * n; i++) if (d[i] != 0.f) { R.violate("C09/normalize/empty-bucket-not-zero", kase, what); return; }
        }
    }
    if (!(std::fabs(ps.getIntegral() - 1) <= 32 * EPS) || !(std::fabs(tot - 1) <= 32 * EPS)) {
        char d[200]; snprintf(d, 200, "%s: total %.9g integral %.9g", what, tot, ps.getIntegral());
        R.violate("C09/normalize/total", kase, d);
    }
}

static void part_norm(const std::vector<unsigned>& ns) {
    for (unsigned n : ns) for (unsigned nb = 1; nb <= 3; nb++) for (auto& fill : fillings(nb)) for (int ex = 0; ex < 3; ex++) for (int dk = 0; dk < 4; dk++) {
        std::string kase = mcx::Desc()("part", "norm")("n", n)("nb", nb)("filling", fstr(fill))("extent", EXTS[ex].name)("data", dk == 0 ? "impulses" : dk == 1 ? "pairs" : dk == 2 ? "dense" : "normalised-for-another-pattern").str();
        if (!R.mine(kase)) continue;
        if (R.out_of_time()) { R.not_completed = kase; return; }
        set_size(n, nb);
        const Ext& E = EXTS[ex];
        std::vector<float> dat((size_t)n * n * nb);
        auto runone = [&](const char* what) {
            // twice: with charge in the buckets the pattern declares empty (it must be removed), and with those buckets really empty
            for (int clear_empty = 0; clear_empty < 2; clear_empty++) {
                bool has_empty = false; for (unsigned b = 0; b < nb; b++) if (fill[b] == 0) has_empty = true;
                if (clear_empty && !has_empty) break;
                std::vector<float> d2 = dat;
                if (clear_empty) for (unsigned b = 0; b < nb; b++) if (fill[b] == 0) std::fill(d2.begin() + (size_t)b * n * n, d2.begin() + (size_t)(b + 1) * n * n, 0.f);
                const std::string w2 = std::string(what) + (clear_empty ? " empty-buckets-empty" : "");
                auto ps = mkps(E.qmin, E.qmax, E.pmin, E.pmax, fill, d2.data());
                // the state right after the shorthand the main loop uses (nothing refreshed by hand afterwards) ...
                ps->updateXProjection(); ps->integrateAndNormalize();
                check_pop(kase, *ps, fill, n, (w2 + " [right after integrateAndNormalize()]").c_str());
                // ... and after the long-hand sequence
                renorm(*ps);
                R.eval(kase + " " + w2, mcx::fnv(ps->getData(), 4 * dat.size(), mcx::fnvs(kase)), nb == 1 && dk == 2);
                check_pop(kase, *ps, fill, n, w2.c_str());
            }
        };
        if (dk == 0) {
            for (unsigned x = 0; x < n; x++) for (unsigned y = 0; y < n; y++) {
                std::fill(dat.begin(), dat.end(), 0.f);
                for (unsigned b = 0; b < nb; b++) dat[((size_t)b * n + (x + b) % n) * n + (y + 2 * b) % n] = 0.3f + 1.7f * b;   // also feeds empty buckets
                char w[40]; snprintf(w, 40, "imp=%u,%u", x, y); runone(w);
            }
        } else if (dk == 1) {
            for (unsigned i = 0; i < n * n; i += 5) for (unsigned j = i + 3; j < n * n; j += (n * n) / 7 + 1) {
                std::fill(dat.begin(), dat.end(), 0.f);
                for (unsigned b = 0; b < nb; b++) { dat[(size_t)b * n * n + (i + 11 * b) % (n * n)] = 1.f + b; dat[(size_t)b * n * n + (j + 5 * b) % (n * n)] += 0.25f * (b + 1); }
                char w[40]; snprintf(w, 40, "pair=%u,%u", i, j); runone(w);
            }
        } else if (dk == 2) {
            for (int v = 0; v < 3; v++) {
                for (unsigned b = 0; b < nb; b++) for (unsigned x = 0; x < n; x++) for (unsigned y = 0; y < n; y++)
                    dat[((size_t)b * n + x) * n + y] = (1.f + b * (v + 1)) * (0.2f + std::fabs(std::sin(0.7f * x * (v + 1) + 0.3f * y + b)));
                char w[40]; snprintf(w, 40, "dense=%d", v); runone(w);
            }
        } else {
            // data that already integrates to one but is distributed over the buckets according to ANOTHER pattern g (every g that has
            // charge wherever 'fill' wants some), scaled by 1 + k eps, k = -4..4, so that the measured total brackets 1 to the last bit
            for (auto& g : fillings(nb)) {
                bool usable = (g != fill); for (unsigned b = 0; b < nb; b++) if (fill[b] > 0 && g[b] == 0) usable = false;
                if (!usable) continue;
                std::vector<float> src((size_t)n * n * nb);
                for (unsigned b = 0; b < nb; b++) for (unsigned x = 0; x < n; x++) for (unsigned y = 0; y < n; y++)
                    src[((size_t)b * n + x) * n + y] = (1.f + b) * (0.2f + std::fabs(std::sin(0.7f * x + 0.3f * y + b)));
                { auto pg = mkps(E.qmin, E.qmax, E.pmin, E.pmax, g, src.data()); renorm(*pg); std::copy(pg->getData(), pg->getData() + src.size(), src.begin()); }
                for (int k = -4; k <= 4; k++) {
                    for (size_t i = 0; i < src.size(); i++) dat[i] = src[i] * (1.f + k * EPS);
                    { auto pt = mkps(E.qmin, E.qmax, E.pmin, E.pmax, fill, dat.data()); pt->updateXProjection(); pt->integrate();
                      if (std::fabs(pt->getIntegral() - 1) <= EPS) R.addnum("sum_norm_cases_with_total_within_one_epsilon_of_1", 1); }
                    char w[80]; snprintf(w, 80, "from=%s k=%d", fstr(g).c_str(), k); runone(w);
                }
            }
        }
    }
    R.bound_done("norm: n x nb{1,2,3} x all fillings in quarters (zeros included) x 3 extents x {every impulse, impulse pairs, dense, data normalised for every other pattern x 9 scalings around total 1}");
}

struct G { double mq, sq, mp, sp, amp; };
static void put_gauss(std::vector<float>& d, unsigned n, unsigned b, const PhaseSpace& ps, const std::vector<G>& gs, bool add = false) {
    for (unsigned x = 0; x < n; x++) for (unsigned y = 0; y < n; y++) {
        double v = 0; const double q = coord(ps, 0, x), p = coord(ps, 1, y);
        for (auto& g : gs) v += g.amp * std::exp(-0.5 * ((q - g.mq) * (q - g.mq) / (g.sq * g.sq) + (p - g.mp) * (p - g.mp) / (g.sp * g.sp))) / (g.sq * g.sp);
        d[((size_t)b * n + x) * n + y] = (add ? d[((size_t)b * n + x) * n + y] : 0.f) + (float)v;
    }
}

static void part_gauss(const std::vector<unsigned>& ns, bool mixtures) {
    const double means[] = {-1.5, 0, 1.2}, sigs[] = {0.5, 0.8, 1.1};
    for (unsigned n : ns) for (unsigned nb = 1; nb <= 3; nb++) for (int ex = 0; ex < 3; ex++) for (int im = 0; im < 9; im++) for (int is = 0; is < 9; is++) for (int mix = 0; mix < (mixtures ? 2 : 1); mix++) {
        const Ext& E = EXTS[ex];
        const double cq = (E.qmin + E.qmax) / 2, cp = (E.pmin + E.pmax) / 2, half = (E.qmax - E.qmin) / 2;
        const double scale = half / 6.0;   // lattice scaled with the extent
        G g{cq + means[im % 3] * scale, sigs[is % 3] * scale, cp + means[im / 3] * scale, sigs[is / 3] * scale, 1.0};
        const double dq = (E.qmax - E.qmin) / (n - 1.0), dp = (E.pmax - E.pmin) / (n - 1.0);
        if (g.sq < 2.5 * dq || g.sp < 2.5 * dp) continue;   // not resolved by this grid: outside the stated domain
        std::string kase = mcx::Desc()("part", "gauss")("n", n)("nb", nb)("extent", EXTS[ex].name)("mean", im)("sigma", is)("mix", mix).str();
        if (!R.mine(kase)) continue;
        if (R.out_of_time()) { R.not_completed = kase; return; }
        set_size(n, nb);
        std::vector<float> fill = fillings(nb)[nb == 1 ? 0 : nb == 2 ? 1 : 7];   // (1), (.25,.75), (.25,.5,.25)
        auto probe = mkps(E.qmin, E.qmax, E.pmin, E.pmax, fill);
        std::vector<G> gs = {g};
        double mq = g.mq, mp = g.mp, vq = g.sq * g.sq, vp = g.sp * g.sp;
        if (mix) {   // second component: weight 0.4, displaced and narrower
            G h{g.mq - 0.8 * scale, std::max(g.sq * 0.75, 2.5 * dq), g.mp + 0.6 * scale, std::max(g.sp * 0.8, 2.5 * dp), 0.4 / 0.6};
            gs.push_back(h);
            const double w1 = 0.6, w2 = 0.4;
            mq = w1 * g.mq + w2 * h.mq; mp = w1 * g.mp + w2 * h.mp;
            vq = w1 * (g.sq * g.sq + (g.mq - mq) * (g.mq - mq)) + w2 * (h.sq * h.sq + (h.mq - mq) * (h.mq - mq));
            vp = w1 * (g.sp * g.sp + (g.mp - mp) * (g.mp - mp)) + w2 * (h.sp * h.sp + (h.mp - mp) * (h.mp - mp));
        }
        // the bunch under test is every bunch in turn; the others hold something else (two variants -> independence)
        for (unsigned bt = 0; bt < nb; bt++) {
            float res[2][4];
            for (int other = 0; other < 2; other++) {
                std::vector<float> dat((size_t)n * n * nb, 0.f);
                for (unsigned b = 0; b < nb; b++) {
                    if (b == bt) put_gauss(dat, n, b, *probe, gs);
                    else put_gauss(dat, n, b, *probe, {G{cq + (other ? 1.0 : -0.7) * scale, (0.9 + 0.2 * b) * scale, cp + (other ? -1.1 : 0.4) * scale, (1.0 + 0.1 * other) * scale, 1.0 + other}});
                }
                // variant A: freshly renormalised; variant B (odd cases): NOT renormalised, every bunch holding a charge that differs from
                // its share (as between two renormalisations of a run) - the moments of a projection do not depend on its amplitude
                const bool raw = (im + is + bt) % 2 == 1;
                // ... nor on its absolute magnitude: the un-normalised data comes in four magnitudes (x1, x2^-24, x2^-50, x2^20: a weak or strong bunch, data in
                // other units), the moments are ratios
                const float pw[4] = {1.f, 5.9604645e-8f, 8.8817842e-16f, 1048576.f};
                if (raw) for (unsigned b = 0; b < nb; b++) { const float amp = fill[b] * (b % 2 ? 1.3f : 0.85f) / 6.2831853f * pw[(im + 2 * is + bt + b) % 4]; for (size_t i = 0; i < (size_t)n * n; i++) dat[(size_t)b * n * n + i] *= amp; }
                auto ps = mkps(E.qmin, E.qmax, E.pmin, E.pmax, fill, dat.data());
                if (raw) { ps->updateXProjection(); ps->updateYProjection(); ps->integrate(); ps->variance(0); ps->variance(1); }
                else renorm(*ps);
                res[other][0] = ps->getMoment(0, 0)[bt]; res[other][1] = ps->getBunchLength()[bt];
                res[other][2] = ps->getMoment(1, 0)[bt]; res[other][3] = ps->getEnergySpread()[bt];
                if (other == 0 && !mix && !raw) {
                    // zeroth moment row by row: each projection of a Gaussian is its marginal, scaled to the bunch's share
                    for (int ax = 0; ax < 2; ax++) {
                        const double m = ax ? g.mp : g.mq, sg = ax ? g.sp : g.sq; double worst = 0, peak = fill[bt] / (std::sqrt(2 * M_PI) * sg);
                        for (unsigned i = 0; i < n; i++) { const double c = ax ? coord(*ps, 1, i) : coord(*ps, 0, i); worst = std::max(worst, std::fabs(ps->getProjection(ax)[bt][i] - peak * std::exp(-0.5 * (c - m) * (c - m) / (sg * sg)))); }
                        R.maxnum("worst_projection_vs_marginal_rel", worst / peak);
                        if (!(worst <= 5e-4 * peak)) { char dd[200]; snprintf(dd, 200, "bunch %u axis %d: projection deviates from the Gaussian marginal by %.3g of its peak", bt, ax, worst / peak); R.violate(std::string("C09/projection/not-the-marginal/axis=") + (ax ? "energy" : "position"), kase, dd); }
                    }
                }
                if (other == 0) {
                    R.eval(kase + " bunch=" + std::to_string(bt), mcx::fnv(res[0], 16, mcx::fnvs(kase) + bt), false);
                    const double want[4] = {mq, std::sqrt(vq), mp, std::sqrt(vp)};
                    const char* nm[4] = {"position", "length", "mean-energy", "energy-spread"};
                    for (int k = 0; k < 4; k++) {
                        // a Gaussian whose nearest grid edge is z standard deviations away is cut there: its variance on the grid is smaller by the fraction
                        // z phi(z) + Q(z) (one side), its mean moves by sigma phi(z) - allowed for, with a factor two (4e-4 of the variance at z = 4.1)
                        const double sg = (k < 2 ? std::sqrt(vq) : std::sqrt(vp)), mu = (k < 2 ? mq : mp), lo = (k < 2 ? E.qmin : E.pmin), hi = (k < 2 ? E.qmax : E.pmax);
                        const double z = std::min(mu - lo, hi - mu) / sg, phi = std::exp(-0.5 * z * z) / std::sqrt(2 * M_PI), Q = 0.5 * std::erfc(z / std::sqrt(2.0));
                        const double cut = 2 * sg * ((k % 2) ? 0.5 * (z * phi + Q) : phi);
                        const double d = (k < 2 ? dq : dp), tol = 0.0125 * d * d + 5e-5 * scale + cut;
                        const double err = std::fabs(res[0][k] - want[k]);
                        R.maxnum(std::string("worst_moment_error_over_tol"), err / tol);
                        if (!(err <= tol)) {
                            char dd[200]; snprintf(dd, 200, "bunch %u %s: reported %.9g analytic %.9g (cell %.4g, tol %.3g)", bt, nm[k], res[0][k], want[k], d, tol);
                            R.violate(std::string("C09/moments/") + nm[k] + (nb > 1 ? "/nb>1" : "/nb=1"), kase, dd);
                        }
                    }
                }
            }
            if (nb > 1 && memcmp(res[0], res[1], 16) != 0) {
                char dd[200]; snprintf(dd, 200, "bunch %u moments change with the other bunches' data: %.9g/%.9g vs %.9g/%.9g", bt, res[0][0], res[0][1], res[1][0], res[1][1]);
                R.violate("C09/moments/depends-on-other-bunch", kase, dd);
            }
        }
    }
    R.bound_done(std::string("gauss: n x nb x 3 extents x 9 means x 9 widths") + (mixtures ? " x {single, two-component mixture}" : "") + ", every bunch in turn, two variants of the other bunches");
}

// part=builtin : the distribution the constructor itself makes (a Gaussian of width `zoom` about the axis zero in both planes, one per filled bucket): "for a
// Gaussian of given mean and width inside the grid, that mean and width up to discretisation error", and each bunch holds its share
static void part_builtin(const std::vector<unsigned>& ns) {
    const double zooms[] = {0.5, 0.75, 1.0, 1.25, 1.5, 2.0};
    for (unsigned n : ns) for (unsigned nb = 1; nb <= 3; nb++) for (int ex = 0; ex < 3; ex++) for (double zoom : zooms) for (unsigned fi = 0; fi < fillings(nb).size(); fi++) {
        const Ext& E = EXTS[ex];
        const double dq = (E.qmax - E.qmin) / (n - 1.0), dp = (E.pmax - E.pmin) / (n - 1.0);
        if (zoom < 2.5 * dq || zoom < 2.5 * dp) continue;                       // not resolved
        std::string kase = mcx::Desc()("part", "builtin")("n", n)("nb", nb)("extent", E.name)("zoom", zoom)("filling", fi).str();
        if (!R.mine(kase)) continue;
        if (R.out_of_time()) { R.not_completed = kase; return; }
        set_size(n, nb);
        std::vector<float> fill = fillings(nb)[fi];
        auto ps = mkps(E.qmin, E.qmax, E.pmin, E.pmax, fill, nullptr, zoom);
        ps->variance(0); ps->variance(1);
        float res[4 * 3];
        for (unsigned b = 0; b < nb; b++) { res[4 * b] = ps->getMoment(0, 0)[b]; res[4 * b + 1] = ps->getBunchLength()[b]; res[4 * b + 2] = ps->getMoment(1, 0)[b]; res[4 * b + 3] = ps->getEnergySpread()[b]; }
        R.eval(kase, mcx::fnv(res, 16 * nb, mcx::fnvs(kase)), false);
        check_pop(kase, *ps, fill, n, "builtin");
        for (unsigned b = 0; b < nb; b++) {
            if (!(fill[b] > 0)) continue;
            const double want[4] = {0, zoom, 0, zoom};
            const char* nm[4] = {"position", "length", "mean-energy", "energy-spread"};
            for (int k = 0; k < 4; k++) {
                const double lo = (k < 2 ? E.qmin : E.pmin), hi = (k < 2 ? E.qmax : E.pmax), d = (k < 2 ? dq : dp);
                const double z = std::min(0 - lo, hi - 0) / zoom, phi = std::exp(-0.5 * z * z) / std::sqrt(2 * M_PI), Q = 0.5 * std::erfc(z / std::sqrt(2.0));
                if (z < 2.5) continue;                                               // more than half a percent of the charge beyond the edge: not "inside the grid"
                const double cut = 2 * zoom * ((k % 2) ? 0.5 * (z * phi + Q) : phi);
                const double tol = 0.0125 * d * d + 5e-5 * (hi - lo) / 12 + cut, err = std::fabs(res[4 * b + k] - want[k]);
                R.maxnum("worst_builtin_moment_error_over_tol", err / tol);
                if (!(err <= tol)) {
                    char dd[200]; snprintf(dd, 200, "bunch %u %s of the built-in Gaussian (zoom %.3g): reported %.9g, expected %.9g (cell %.4g, tol %.3g)", b, nm[k], zoom, res[4 * b + k], want[k], d, tol);
                    R.violate(std::string("C09/builtin/") + nm[k] + (nb > 1 ? "/nb>1" : "/nb=1"), kase, dd);
                }
            }
        }
    }
    R.bound_done("builtin: n x nb x 3 extents x 6 zoom factors x all filling patterns of the lattice: moments = (0, zoom) per plane, populations = shares");
}

// part=large : large grids (512, 1024 cells) with narrow bunches (2.5 - 6 cells rms) anywhere on the grid, also near its upper end: the moments are the
// moments of the projections (double-precision reference on the same projections, relative 2e-4 on the widths) and those of the Gaussian
static void part_large(const std::vector<unsigned>& ns) {
    for (unsigned n : ns) for (int ipos = 0; ipos < 5; ipos++) for (int iw = 0; iw < 3; iw++) for (int raw = 0; raw < 2; raw++) {
        std::string kase = mcx::Desc()("part", "large")("n", n)("pos", ipos)("width", iw)("raw", raw).str();
        if (!R.mine(kase)) continue;
        if (R.out_of_time()) { R.not_completed = kase; return; }
        set_size(n, 1);
        const double d = 12.0 / (n - 1), wcells[3] = {2.5, 4.0, 6.0}, posf[5] = {-0.8, -0.3, 0.1, 0.6, 0.85};
        G g{6 * posf[ipos], wcells[iw] * d, 6 * posf[4 - ipos], wcells[2 - iw] * d, 1.0};
        auto probe = mkps(-6, 6, -6, 6, {1.f});
        std::vector<float> dat((size_t)n * n); put_gauss(dat, n, 0, *probe, {g});
        if (raw) for (auto& v : dat) v *= 0.37f;
        auto ps = mkps(-6, 6, -6, 6, {1.f}, dat.data());
        if (raw) { ps->updateXProjection(); ps->updateYProjection(); ps->integrate(); ps->variance(0); ps->variance(1); } else renorm(*ps);
        const float got[4] = {ps->getMoment(0, 0)[0], ps->getBunchLength()[0], ps->getMoment(1, 0)[0], ps->getEnergySpread()[0]};
        R.eval(kase, mcx::fnv(got, 16, mcx::fnvs(kase)), false);
        // reference moments of the object's own projections, in double precision
        double ref[4];
        for (int ax = 0; ax < 2; ax++) { double s0 = 0, s1 = 0, s2 = 0; for (unsigned i = 0; i < n; i++) { const double v = ps->getProjection(ax)[0][i], c = ax ? coord(*ps, 1, i) : coord(*ps, 0, i); s0 += v; s1 += v * c; }
            const double m = s1 / s0; for (unsigned i = 0; i < n; i++) { const double v = ps->getProjection(ax)[0][i], c = ax ? coord(*ps, 1, i) : coord(*ps, 0, i); s2 += v * (c - m) * (c - m); } ref[2 * ax] = m; ref[2 * ax + 1] = std::sqrt(s2 / s0); }
        const double want[4] = {g.mq, g.sq, g.mp, g.sp}; const char* nm[4] = {"position", "length", "mean-energy", "energy-spread"};
        for (int k = 0; k < 4; k++) {
            const double tolref = (k % 2) ? 2e-4 * ref[k] : 2e-3 * d, tolana = (k % 2) ? 1e-3 * want[k] : 5e-3 * d;
            R.maxnum("worst_large_grid_moment_vs_projection_reference", std::fabs(got[k] - ref[k]) / tolref);
            if (!(std::fabs(got[k] - ref[k]) <= tolref) || !(std::fabs(got[k] - want[k]) <= tolana)) {
                char dd[220]; snprintf(dd, 220, "%s: reported %.9g, moment of the projection %.9g, Gaussian %.9g (cell %.4g)", nm[k], got[k], ref[k], want[k], d);
                R.violate(std::string("C09/moments/large-grid/") + nm[k], kase, dd);
            }
        }
    }
    R.bound_done("large: n{512,1024} x 5 positions (lower end ... upper end of the grid) x widths {2.5, 4, 6} cells x {renormalised, raw}; moments vs double-precision moments of the same projections and vs the Gaussian");
}

static void part_copy(const std::vector<unsigned>& ns) {
    for (unsigned n : ns) for (unsigned nb = 1; nb <= 3; nb++) for (auto& fill : fillings(nb)) for (int ex = 0; ex < 3; ex++) for (int how = 0; how < 2; how++) {
        bool haszero = false; for (float f : fill) if (f == 0) haszero = true;
        std::string kase = mcx::Desc()("part", "copy")("n", n)("nb", nb)("filling", fstr(fill))("extent", EXTS[ex].name)("how", how ? "assign" : "ctor").str();
        if (!R.mine(kase)) continue;
        const Ext& E = EXTS[ex];
        set_size(n, nb);
        auto probe = mkps(E.qmin, E.qmax, E.pmin, E.pmax, fill);
        std::vector<float> dat((size_t)n * n * nb, 0.f);
        const double s = (E.qmax - E.qmin) / 12.0;
        for (unsigned b = 0; b < nb; b++) put_gauss(dat, n, b, *probe, {G{(E.qmin + E.qmax) / 2 + (0.5 - 0.4 * b) * s, (1.0 + 0.2 * b) * s, (E.pmin + E.pmax) / 2 - 0.3 * s * b, (0.9 + 0.1 * b) * s, 1.0 + b}});
        auto a = mkps(E.qmin, E.qmax, E.pmin, E.pmax, fill, dat.data());
        renorm(*a);
        std::shared_ptr<PhaseSpace> c;
        if (how == 0) c = std::make_shared<PhaseSpace>(*a);
        else { c = mkps(E.qmin, E.qmax, E.pmin, E.pmax, fill); *c = *a; }
        R.eval(kase, mcx::fnv(c->getData(), 4 * dat.size(), mcx::fnvs(kase)), false);
        std::string key = std::string("C09/copy/") + (how ? "assign" : "ctor");
        if (memcmp(a->getData(), c->getData(), 4 * dat.size()) != 0) { R.violate(key + "/data", kase, "data differ"); continue; }
        bool ok = true;
        for (int ax = 0; ax < 2 && ok; ax++) for (unsigned b = 0; b < nb && ok; b++) for (unsigned i = 0; i < n; i++)
            if (a->getProjection(ax)[b][i] != c->getProjection(ax)[b][i]) { char d[120]; snprintf(d, 120, "projection axis %d bunch %u cell %u: %.9g vs %.9g", ax, b, i, a->getProjection(ax)[b][i], c->getProjection(ax)[b][i]); R.violate(key + "/projection", kase, d); ok = false; break; }
        if (a->getIntegral() != c->getIntegral()) { R.violate(key + "/integral", kase, mcx::fstr(a->getIntegral()) + " vs " + mcx::fstr(c->getIntegral())); ok = false; }
        for (unsigned b = 0; b < nb; b++) if (a->getBunchPopulation()[b] != c->getBunchPopulation()[b]) { R.violate(key + "/population", kase, "bunch " + std::to_string(b)); ok = false; break; }
        if (!ok) continue;
        c->variance(0); c->variance(1);
        for (unsigned b = 0; b < nb; b++) {
            if (fill[b] == 0) continue;
            if (a->getMoment(0, 0)[b] != c->getMoment(0, 0)[b] || a->getBunchLength()[b] != c->getBunchLength()[b] ||
                a->getMoment(1, 0)[b] != c->getMoment(1, 0)[b] || a->getEnergySpread()[b] != c->getEnergySpread()[b]) {
                char d[200]; snprintf(d, 200, "bunch %u: original %.9g/%.9g/%.9g/%.9g copy %.9g/%.9g/%.9g/%.9g", b, a->getMoment(0, 0)[b], a->getBunchLength()[b], a->getMoment(1, 0)[b], a->getEnergySpread()[b],
                                      c->getMoment(0, 0)[b], c->getBunchLength()[b], c->getMoment(1, 0)[b], c->getEnergySpread()[b]);
                R.violate(key + "/moments", kase, d); break;
            }
        }
        (void)haszero;
    }
    R.bound_done("copy: n x nb x all fillings x 3 extents x {copy constructor, assignment}");
}

// ---- part=hist : explicit search over call histories of one PhaseSpace object (plus a second object for assignment / swap) against a reference model.
// The object caches what it derives from the grid (two projections, populations + total, first/second moments); the methods refresh some of them and
// read others.  The reference model tracks, per cache, whether it is FRESH (computed from the grid as it is now, from fresh inputs); an operation is
// enabled when the caches it reads are fresh (the shorthand integrateAndNormalize() needs only the position projection).  After EVERY operation of EVERY
// history up to the depth bound: each cache the model calls fresh equals its definition recomputed in double precision from the object's current grid;
// after a renormalisation the grid is the old grid times share/population (empty buckets zero) and, after the shorthand, the reported populations are
// the shares; a copy / an assigned object / a swapped pair carry what the statement says they carry.
struct HModel { bool X = false, Y = false, F = false, M0 = false, M1 = false; };
struct HObj { std::unique_ptr<PhaseSpace> ps; HModel m; };
static void hist_pattern(std::vector<float>& d, unsigned n, unsigned nb, int k, const std::vector<float>& fill) {
    for (unsigned b = 0; b < nb; b++) for (unsigned x = 0; x < n; x++) for (unsigned y = 0; y < n; y++) {
        const double cx = (k ? 2.3 : 4.6) + 0.7 * b, cy = (k ? 4.9 : 2.8) - 0.4 * b, sx = k ? 1.4 : 1.1, sy = k ? 0.9 : 1.6;
        double v = (0.3 + k + 0.5 * b) * std::exp(-0.5 * ((x - cx) * (x - cx) / (sx * sx) + (y - cy) * (y - cy) / (sy * sy)));
        if (fill[b] == 0 && k == 1) v = 0;        // pattern 1 leaves a bucket the filling declares empty really empty, pattern 0 puts stray charge there
        d[((size_t)b * n + x) * n + y] = (float)v;
    }
}
struct HRef { std::vector<double> px, py, fill, m0q, m1q, m0p, m1p; double integral; };
static HRef hist_ref(const PhaseSpace& ps, unsigned n, unsigned nb, const std::vector<float>& px_real, const std::vector<float>& py_real, const std::vector<float>& fill_real) {
    // definitions evaluated in double: projections from the grid; populations from the REAL position projection; moments from the REAL projections and populations
    HRef r; r.px.assign((size_t)nb * n, 0); r.py.assign((size_t)nb * n, 0); r.fill.assign(nb, 0); r.m0q = r.m1q = r.m0p = r.m1p = std::vector<double>(nb, 0); r.integral = 0;
    const float* d = ps.getData(); const auto& ws = ps._ws;
    for (unsigned b = 0; b < nb; b++) for (unsigned x = 0; x < n; x++) for (unsigned y = 0; y < n; y++) { const double v = d[((size_t)b * n + x) * n + y]; r.px[b * n + x] += v * ws[y]; r.py[b * n + y] += v * ws[x]; }
    for (unsigned b = 0; b < nb; b++) { for (unsigned x = 0; x < n; x++) r.fill[b] += (double)px_real[b * n + x] * ws[x]; r.integral += r.fill[b]; }
    for (unsigned b = 0; b < nb; b++) if (fill_real[b] != 0) {
        double a = 0, c = 0; for (unsigned i = 0; i < n; i++) { a += (double)px_real[b * n + i] * coord(ps, 0, i); c += (double)py_real[b * n + i] * coord(ps, 1, i); }
        r.m0q[b] = a * ps.getDelta(0) / fill_real[b]; r.m0p[b] = c * ps.getDelta(1) / fill_real[b];
        a = c = 0; for (unsigned i = 0; i < n; i++) { a += (double)px_real[b * n + i] * std::pow(coord(ps, 0, i) - r.m0q[b], 2); c += (double)py_real[b * n + i] * std::pow(coord(ps, 1, i) - r.m0p[b], 2); }
        r.m1q[b] = a * ps.getDelta(0) / fill_real[b]; r.m1p[b] = c * ps.getDelta(1) / fill_real[b];
    }
    return r;
}
static void part_hist(unsigned depth) {
    const unsigned n = 8;
    const std::vector<std::vector<float>> fills = {{1.f}, {0.25f, 0.75f}, {0.5f, 0.f, 0.5f}};
    const char OPS[] = "abXYINSVWCAP";   // a,b: write pattern 0/1; X,Y projections; I integrate; N normalize; S shorthand; V variance(0); W variance(1); C copy; A assign from the second object; P swap with it
    uint64_t states = 0, transitions = 0; std::unordered_set<uint64_t> seen;
    for (size_t fi = 0; fi < fills.size(); fi++) {
        const auto& fill = fills[fi]; const unsigned nb = fill.size();
        // histories are enumerated as base-12 numbers of `depth` digits; the first digit selects the shard
        std::vector<int> h(depth, 0);
        uint64_t total = 1; for (unsigned i = 0; i < depth; i++) total *= 12;
        // replay mode: --case "hist filling=<f> ops=<history>" runs exactly that history
        bool single = false; unsigned dlen = depth;
        if (!R.only_case.empty()) {
            auto d = mcx::parse_desc(R.only_case);
            if (R.only_case.rfind("hist ", 0) != 0 || d["filling"] != fstr(fill)) continue;
            const std::string ops = d["ops"]; dlen = ops.size(); h.assign(dlen, 0);
            for (unsigned i = 0; i < dlen; i++) h[i] = (int)(std::string(OPS).find(ops[i]));
            single = true; total = 1;
        }
        const unsigned depth_run = dlen;
        for (uint64_t code = 0; code < total; code++) {
            if (!single) { uint64_t c = code; for (unsigned i = 0; i < depth; i++) { h[depth - 1 - i] = c % 12; c /= 12; } }
            if (!single && code % 144 == 0) {     // sharding granularity: blocks of 144 histories (same first depth-2 operations)
                std::string blk = mcx::Desc()("part", "hist")("filling", fstr(fill))("block", code / 144).str();
                if (!R.mine(blk)) { code += 143; continue; }
                if (R.out_of_time()) { R.not_completed = blk; return; }
            }
            set_size(n, nb);
            HObj o, o2; std::vector<float> dat((size_t)n * n * nb);
            hist_pattern(dat, n, nb, 0, fill); o.ps = std::unique_ptr<PhaseSpace>(new PhaseSpace(-6, 6, 1e-3, -6, 6, 6.1e5, nullptr, 1e-9, 1e-3, fill, 1, dat.data())); o.m = HModel{true, true, true, false, false};
            hist_pattern(dat, n, nb, 1, fill); o2.ps = std::unique_ptr<PhaseSpace>(new PhaseSpace(-6, 6, 1e-3, -6, 6, 6.1e5, nullptr, 1e-9, 1e-3, fill, 1, dat.data())); o2.m = HModel{true, true, true, false, false};
            o2.ps->variance(0); o2.ps->variance(1); o2.m.M0 = o2.m.M1 = true;
            std::string hs; bool dead = false;
            for (unsigned step = 0; step < depth_run && !dead; step++) {
                const char op = OPS[h[step]]; PhaseSpace& ps = *o.ps; HModel& m = o.m;
                std::vector<float> before(ps.getData(), ps.getData() + dat.size()); std::vector<double> popb(nb); for (unsigned b = 0; b < nb; b++) popb[b] = ps.getBunchPopulation()[b];
                // the shorthand integrates first: the population it divides by is that of the (fresh) position projection
                if (op == 'S' && m.X) for (unsigned b = 0; b < nb; b++) { double f = 0; for (unsigned i = 0; i < n; i++) f += (double)ps.getProjection(0)[b][i] * ps._ws[i]; popb[b] = f; }
                bool enabled = true, renormed = false, shorthand = false;
                switch (op) {
                    case 'a': case 'b': hist_pattern(dat, n, nb, op == 'b', fill); std::copy(dat.begin(), dat.end(), ps.getData()); m = HModel(); break;
                    case 'X': ps.updateXProjection(); m.X = true; m.F = false; m.M0 = false; m.M1 = false; break;
                    case 'Y': ps.updateYProjection(); m.Y = true; m.M1 = false; break;
                    case 'I': if (!m.X) { enabled = false; break; } ps.integrate(); m.F = true; m.M0 = m.M1 = false; break;
                    case 'N': if (!m.F) { enabled = false; break; } ps.normalize(); m = HModel(); renormed = true; break;
                    case 'S': if (!m.X) { enabled = false; break; } ps.integrateAndNormalize(); m = HModel(); m.X = m.F = true; renormed = shorthand = true; break;
                    case 'V': if (!(m.X && m.F)) { enabled = false; break; } ps.variance(0); m.M0 = true; break;
                    case 'W': if (!(m.Y && m.F)) { enabled = false; break; } ps.variance(1); m.M1 = true; break;
                    case 'C': { std::unique_ptr<PhaseSpace> cp(new PhaseSpace(ps)); if (memcmp(cp->getData(), ps.getData(), 4 * dat.size()) != 0) R.violate("C09/history/copy/data-differs", hs + op, "copy constructor"); o.ps = std::move(cp); m = HModel{true, true, true, false, false}; break; }
                    case 'A': { *o.ps = *o2.ps; if (memcmp(o.ps->getData(), o2.ps->getData(), 4 * dat.size()) != 0) R.violate("C09/history/assign/data-differs", hs + op, "operator="); m = HModel{o2.m.X, o2.m.Y, o2.m.F, false, false};
                                // an assigned object carries the projections and populations of its original
                                if (o2.m.X && o2.m.F) for (unsigned b = 0; b < nb; b++) if (o.ps->getBunchPopulation()[b] != o2.ps->getBunchPopulation()[b] || memcmp(&o.ps->getProjection(0)[b][0], &o2.ps->getProjection(0)[b][0], 4 * n) != 0) { R.violate("C09/history/assign/caches-differ", hs + op, "population or position projection of the assigned object differs from the original's"); break; }
                                break; }
                    case 'P': { o.ps->swap(*o2.ps); std::swap(o.m, o2.m); break; }
                }
                if (!enabled) { dead = true; break; }
                hs += op; transitions++;
                PhaseSpace& q = *o.ps; HModel& mm = o.m;
                uint64_t hsh = mcx::fnv(q.getData(), 4 * dat.size(), fi * 131 + (mm.X ? 1 : 0) + (mm.Y ? 2 : 0) + (mm.F ? 4 : 0) + (mm.M0 ? 8 : 0) + (mm.M1 ? 16 : 0));
                for (unsigned b = 0; b < nb; b++) { hsh = mcx::fnv(&q.getProjection(0)[b][0], 4 * n, hsh); hsh = mcx::fnv(&q.getProjection(1)[b][0], 4 * n, hsh); float pp = q.getBunchPopulation()[b]; hsh = mcx::fnv(&pp, 4, hsh); }
                if (seen.insert(hsh).second) states++;
                R.eval("hist filling=" + fstr(fill) + " ops=" + hs, hsh, false);
                // ---- oracles
                std::vector<float> px((size_t)nb * n), py((size_t)nb * n), fr(nb);
                for (unsigned b = 0; b < nb; b++) { for (unsigned i = 0; i < n; i++) { px[b * n + i] = q.getProjection(0)[b][i]; py[b * n + i] = q.getProjection(1)[b][i]; } fr[b] = q.getBunchPopulation()[b]; }
                HRef r = hist_ref(q, n, nb, px, py, fr);
                const std::string kase = "hist filling=" + fstr(fill) + " ops=" + hs;
                auto bad = [&](const char* what, double got, double want) { char d[200]; snprintf(d, 200, "after '%s': %s = %.9g, definition evaluated on the current grid %.9g", hs.c_str(), what, got, want); R.violate(std::string("C09/history/") + what + "/after=" + op, kase, d); };
                double mx = 0; for (double v : r.px) mx = std::max(mx, std::fabs(v)); for (double v : r.py) mx = std::max(mx, std::fabs(v));
                if (mm.X) for (size_t i = 0; i < px.size(); i++) if (!(std::fabs(px[i] - r.px[i]) <= 1e-5 * mx)) { bad("position-projection", px[i], r.px[i]); break; }
                if (mm.Y) for (size_t i = 0; i < py.size(); i++) if (!(std::fabs(py[i] - r.py[i]) <= 1e-5 * mx)) { bad("energy-projection", py[i], r.py[i]); break; }
                if (mm.F) { double tot = 0; for (unsigned b = 0; b < nb; b++) { tot += fr[b]; if (!(std::fabs(fr[b] - r.fill[b]) <= 1e-5 * std::max(1e-3, std::fabs(r.fill[b])))) { bad("population", fr[b], r.fill[b]); break; } }
                            if (!(std::fabs(q.getIntegral() - tot) <= 1e-5 * std::max(1e-3, std::fabs(tot)))) bad("integral", q.getIntegral(), tot); }
                if (mm.M0) for (unsigned b = 0; b < nb; b++) if (fill[b] > 0) { if (!(std::fabs(q.getMoment(0, 0)[b] - r.m0q[b]) <= 2e-5 * 6)) { bad("mean-position", q.getMoment(0, 0)[b], r.m0q[b]); break; } if (!(std::fabs(q.getBunchLength()[b] - std::sqrt(r.m1q[b])) <= 2e-5 * 6)) { bad("bunch-length", q.getBunchLength()[b], std::sqrt(r.m1q[b])); break; } }
                if (mm.M1) for (unsigned b = 0; b < nb; b++) if (fill[b] > 0) { if (!(std::fabs(q.getMoment(1, 0)[b] - r.m0p[b]) <= 2e-5 * 6)) { bad("mean-energy", q.getMoment(1, 0)[b], r.m0p[b]); break; } if (!(std::fabs(q.getEnergySpread()[b] - std::sqrt(r.m1p[b])) <= 2e-5 * 6)) { bad("energy-spread", q.getEnergySpread()[b], std::sqrt(r.m1p[b])); break; } }
                if (renormed) {
                    const float* dn = q.getData();
                    for (unsigned b = 0; b < nb; b++) for (size_t i = 0; i < (size_t)n * n; i++) {
                        const double want = fill[b] > 0 ? (double)before[(size_t)b * n * n + i] * fill[b] / popb[b] : 0.0, got = dn[(size_t)b * n * n + i];
                        if (!(std::fabs(got - want) <= 4 * EPS * std::fabs(want)) || !std::isfinite(got)) { bad("renormalised-grid", got, want); b = nb; break; }
                    }
                    if (shorthand) for (unsigned b = 0; b < nb; b++) if (!(std::fabs(fr[b] - fill[b]) <= 32 * EPS * std::max(fill[b], 0.01f))) { bad("population-after-shorthand", fr[b], fill[b]); break; }
                }
            }
        }
    }
    R.addnum("states", (double)states); R.addnum("transitions", (double)transitions);
    R.bound_done("hist: every history of {write pattern 0/1, updateX, updateY, integrate, normalize, integrateAndNormalize, variance(0), variance(1), copy, assign, swap} up to depth " + std::to_string(depth) +
                 " (operations whose inputs the model calls stale end a history) x 3 filling patterns (one with an empty bucket), 8x8 grid; every cache the model calls fresh == its definition on the current grid, after every operation");
}

int main(int argc, char** argv) {
    R.init(argc, argv, "C09", "C09_moments"); quiet();
    R.rule = "one evaluation = one real PhaseSpace built from enumerated data, renormalised and measured; distinct = FNV of case + resulting data/moments; trivial = single bunch dense data";
    R.sample_every = 5000;
    const bool T = true /* the wide lattices run in both tiers */; const bool D = R.thorough(); (void)D;
    part_norm(D ? std::vector<unsigned>{8, 9, 16, 17, 24, 32, 33} : std::vector<unsigned>{8, 9, 16, 17, 24});
    part_gauss(D ? std::vector<unsigned>{32, 33, 48, 64, 65, 96, 128, 129} : std::vector<unsigned>{32, 33, 48, 64, 65, 96}, T);
    part_copy(T ? std::vector<unsigned>{8, 9, 16, 17, 32, 33} : std::vector<unsigned>{8, 9, 16});
    part_builtin(D ? std::vector<unsigned>{32, 33, 48, 64, 65, 96, 128} : std::vector<unsigned>{32, 33, 64, 65});
    part_large(D ? std::vector<unsigned>{512, 1024, 2048} : std::vector<unsigned>{512, 1024});
    part_hist(D ? 6 : 5);
    return R.finish();
}
